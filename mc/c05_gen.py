"""Enumerators for C05: frames (divisions x meter/measures x key signatures), note/rest events on
the frame's grid, score structures, and note arrays for the inverse direction.

Everything is deterministic and JSON-able; a case names its frame by key and its events by grid
indices, the worker rebuilds the part spec (mc/ir.py format) from them.
"""
from fractions import Fraction as F
from itertools import product

# (length in quarters, (beats, beat_type) or None) per measure; flags: measures / time signatures emitted
METERS = {
    "34": dict(meas=[(F(3), (3, 4)), (F(3), (3, 4))], m=True, ts=True),
    "34pk": dict(meas=[(F(1), (3, 4)), (F(3), (3, 4)), (F(3), (3, 4))], m=True, ts=True),
    "24-68": dict(meas=[(F(2), (2, 4)), (F(3), (6, 8)), (F(3), (6, 8))], m=True, ts=True),
    "68pk": dict(meas=[(F(1, 2), (6, 8)), (F(3), (6, 8)), (F(3), (6, 8))], m=True, ts=True),
    "34-24": dict(meas=[(F(3), (3, 4)), (F(2), (2, 4)), (F(2), (2, 4))], m=True, ts=True),
    "22": dict(meas=[(F(4), (2, 2)), (F(4), (2, 2))], m=True, ts=True),
    "44one": dict(meas=[(F(4), (4, 4))], m=True, ts=True),
    "nots": dict(meas=[(F(2), None), (F(2), None)], m=True, ts=False),
    "nomeas": dict(meas=[(F(3), (3, 4)), (F(3), (3, 4))], m=False, ts=True),
    "bare": dict(meas=[(F(2), None), (F(2), None)], m=False, ts=False),
}
METER_NAMES = sorted(METERS)
DIVPLANS = [("c", 1), ("c", 2), ("c", 3), ("c", 4), ("c", 6),
            ("b", 2, 3), ("b", 4, 6), ("b", 3, 1), ("b", 6, 4),
            ("m", 2, 3), ("m", 4, 2), ("m", 6, 4)]
KEYPLANS = ["none", "one", "chg", "late"]

PAL = [("C", 4, None), ("C", 4, 1), ("D", 4, -1), ("B", 3, 0), ("G", 4, None)]
VO = [1, 2, None]
SO = [1, None, 2]

_FRAMES = {}


def frame_keys():
    out = []
    for mn in METER_NAMES:
        for dp in DIVPLANS:
            for kp in KEYPLANS:
                if get_frame((mn, list(dp), kp)) is not None:
                    out.append([mn, list(dp), kp])
    return out


def get_frame(key):
    k = (key[0], tuple(key[1]), key[2])
    if k not in _FRAMES:
        _FRAMES[k] = _make_frame(*k)
    return _FRAMES[k]


def _make_frame(mname, divplan, keyplan):
    M = METERS[mname]
    meas = M["meas"]
    starts = [F(0)]
    for L, _ in meas:
        starts.append(starts[-1] + L)
    # first measure of full length (index 1 after a pickup)
    full = 0
    if len(meas) > 1 and meas[0][1] is not None and meas[0][0] < F(meas[0][1][0] * 4, meas[0][1][1]):
        full = 1
    q0 = divplan[1]
    cq = None
    q1 = None
    if divplan[0] == "b":
        if len(meas) < 2:
            return None
        cq, q1 = starts[len(meas) - 1], divplan[2]
    elif divplan[0] == "m":
        cq, q1 = starts[full] + meas[full][0] / 2, divplan[2]

    def T(x):
        if cq is None or x <= cq:
            v = x * q0
        else:
            v = cq * q0 + (x - cq) * q1
        return v

    def Ti(x):
        v = T(x)
        return int(v) if v.denominator == 1 else None

    if any(Ti(x) is None for x in starts):
        return None
    if cq is not None and Ti(cq) is None:
        return None
    divs = [[0, q0]]
    if cq is not None:
        divs.append([Ti(cq), q1])
    objs = []
    if M["m"]:
        for i in range(len(meas)):
            objs.append({"k": "measure", "s": Ti(starts[i]), "e": Ti(starts[i + 1]), "number": i + 1})
    if M["ts"]:
        prev = None
        for i, (L, sig) in enumerate(meas):
            if sig != prev:
                objs.append({"k": "ts", "s": Ti(starts[i]), "beats": sig[0], "beat_type": sig[1]})
                prev = sig
    if not M["m"] and not M["ts"]:
        # every generated part has an object at time 0 (the origin of the time maps is then unambiguous)
        objs.append({"k": "clef", "s": 0, "staff": 1, "sign": "G", "line": 2, "oct": 0})
    last_start = Ti(starts[len(meas) - 1])
    second = Ti(starts[1]) if len(meas) > 1 else None
    if keyplan == "one":
        objs.append({"k": "ks", "s": 0, "fifths": -3, "mode": "minor"})
    elif keyplan == "chg":
        objs.append({"k": "ks", "s": 0, "fifths": 2, "mode": "major"})
        if last_start != 0:
            objs.append({"k": "ks", "s": last_start, "fifths": -1, "mode": None})
    elif keyplan == "late":
        if second is None:
            return None
        objs.append({"k": "ks", "s": second, "fifths": 1, "mode": "minor"})
    # grid: measure starts, one interior point per measure, the end
    grid = set()
    for i, (L, sig) in enumerate(meas):
        grid.add(Ti(starts[i]))
        cands = [starts[i] + L / 2]
        if sig is not None:
            cands.append(starts[i] + F(4, sig[1]))
        cands.append(starts[i] + 1)
        for c in cands:
            if starts[i] < c < starts[i + 1] and Ti(c) is not None:
                grid.add(Ti(c))
                break
    grid.add(Ti(starts[-1]))
    if cq is not None:
        grid.add(Ti(cq))
    grid = sorted(grid)
    return dict(key=[mname, list(divplan), keyplan], divs=divs, objs=objs, grid=grid, span=Ti(starts[-1]),
                has_measures=M["m"], has_ts=M["ts"])


def note_events(frame):
    n = len(frame["grid"])
    ev = []
    for i in range(n):
        for j in range(i + 1, min(n, i + 4)):
            ev.append(["n", i, j])
    for i in range(n):
        for j in range(i + 2, min(n, i + 4)):
            ev.append(["t", i, j])
    for i in range(n - 1):
        ev.append(["g", i, i])
    return ev


def rest_events(frame):
    n = len(frame["grid"])
    ev = []
    for i in range(n):
        for j in range(i + 1, min(n, i + 3)):
            ev.append(["r", i, j])
    return ev


GTYPES = ["grace", "acciaccatura", "appoggiatura"]


def default_deco(events, all_events):
    """deterministic pitch / voice / staff assignment from the event indices (both pitch orders of
    every same-onset pair occur because ordered pairs are enumerated)"""
    idx = [all_events.index(e) if e in all_events else k for k, e in enumerate(events)]
    deco = []
    for pos, a in enumerate(idx):
        b = idx[(pos + 1) % len(idx)]
        deco.append(dict(p=(a + 2 * b + pos) % len(PAL), v=VO[(a + pos * b) % 3], st=SO[(2 * a + b + pos) % 3],
                         gt=GTYPES[(a + b) % 3]))
    return deco


def build_spec(frame, events, deco, pid="P1"):
    """part spec (mc/ir.py) for `events` on `frame`; deco[k] = dict(p=PAL index or [step, oct, alter], v, st[, gt])"""
    G = frame["grid"]
    objs = [dict(o) for o in frame["objs"]]
    for k, (ev, d) in enumerate(zip(events, deco)):
        kind, i, j = ev
        p = d["p"]
        step, octv, alter = PAL[p] if isinstance(p, int) else p
        base = dict(step=step, oct=octv, alter=alter, voice=d.get("v"), staff=d.get("st"))
        if kind == "n":
            objs.append(dict(base, k="note", s=G[i], e=G[j], id="n%d" % k))
        elif kind == "g":
            objs.append(dict(base, k="grace", s=G[i], e=G[i], id="n%d" % k, gtype=d.get("gt", "grace")))
        elif kind == "t":
            ids = ["n%d" % k] + ["n%d%s" % (k, chr(ord("a") + x)) for x in range(1, j - i)]
            for x in range(j - i):
                o = dict(base, k="note", s=G[i + x], e=G[i + x + 1], id=ids[x])
                if x > 0:
                    # later links carry other voice/staff values: the row must show the head's
                    o["voice"] = 3
                    o["staff"] = 3
                if x + 1 < j - i:
                    o["tie"] = ids[x + 1]
                objs.append(o)
        elif kind == "r":
            objs.append(dict(k="rest", s=G[i], e=G[j], id="r%d" % k, voice=d.get("v"), staff=d.get("st")))
        else:
            raise ValueError(kind)
    return {"id": pid, "divs": [list(x) for x in frame["divs"]], "objs": objs}


# ---------------------------------------------------------------------------------------------
# magnitude dimension: the same small parts at large tick values

MAG_FACTORS = [1, 480, 10080, 302400]   # every time and every quarter duration of the frame is multiplied by the factor
MAG_BOUNDS = [["2^24", 2 ** 24], ["2^30", 2 ** 30], ["max", 2 ** 31 - 1]]  # where the late section lies (None: no late section)
MAG_MAX_QUARTERS = 2 ** 16              # longest distance of the late section from the start, in quarters
MAG_FRAMES = [["34pk", ["c", 2], "chg"], ["24-68", ["c", 2], "one"], ["68pk", ["c", 4], "chg"],
              ["34-24", ["b", 2, 3], "chg"], ["22", ["c", 1], "none"], ["nots", ["c", 2], "late"],
              ["44one", ["c", 3], "one"], ["nomeas", ["m", 4, 2], "late"], ["34", ["c", 6], "one"],
              ["24-68", ["b", 6, 4], "chg"]]


def mag_offset(frame, factor, bound):
    """start of the late section in (multiplied) divisions: a whole number of quarters (of the last quarter
    duration) after time 0, such that
      bound '2^24' / '2^30': that power of two lies within a quarter after the middle of the late section (the
                             frame's grid shifted by the offset), so that grid points lie on either side of it;
      bound 'max':           the late section ends within a quarter before 2^31 - 1 (the largest value of the
                             int32 division columns);
    None when there is no late section (bound None)"""
    if bound is None:
        return 0
    B = dict((a, b) for a, b in MAG_BOUNDS)[bound]
    q = frame["divs"][-1][1] * factor
    span = frame["span"] * factor
    if bound == "max":
        return (B - span) // q * q
    return (B - span // 2) // q * q


def mag_levels(frame):
    """[factor, bound] combinations for a frame: without late section every factor > 1 (factor 1 is the unmultiplied
    part of the other spaces); with one every factor x bound whose late section is at most MAG_MAX_QUARTERS
    quarters after the start (the beat and quarter columns are float32: onsets one division of the frame apart
    stay distinct there) and begins after the end of the multiplied frame"""
    out = [[k, None] for k in MAG_FACTORS if k > 1]
    for bname, _b in MAG_BOUNDS:
        for k in MAG_FACTORS:
            d = mag_offset(frame, k, bname)
            if frame["span"] * k <= d <= MAG_MAX_QUARTERS * frame["divs"][-1][1] * k:
                out.append([k, bname])
    return out


def mag_events(frame):
    """(note-like events, rest events) of the magnitude space: a one-cell note on every grid cell, a tie chain of
    two cells from every grid point, a grace note on every grid point but the last, one note over the whole grid;
    a one-cell rest on every grid cell"""
    n = len(frame["grid"])
    notes = [["n", i, i + 1] for i in range(n - 1)] + [["t", i, i + 2] for i in range(n - 2)]
    notes += [["g", i, i] for i in range(n - 1)] + [["n", 0, n - 1]]
    rests = [["r", i, i + 1] for i in range(n - 1)]
    return notes, rests


def magnify_spec(spec, factor, offset, late):
    """part spec with every time and quarter duration multiplied by `factor`; the notes / rests of the events whose
    index is in `late` (ids n<k>, n<k><letter>, r<k>) are moved `offset` divisions later"""
    import re

    out = {"id": spec["id"], "divs": [[t * factor, q * factor] for t, q in spec["divs"]], "objs": []}
    for o in spec["objs"]:
        o = dict(o)
        m = re.match(r"^[nr](\d+)", o.get("id") or "")
        sh = offset if (m is not None and int(m.group(1)) in late) else 0
        for x in ("s", "e"):
            if o.get(x) is not None:
                o[x] = o[x] * factor + sh
        out["objs"].append(o)
    return out


# ---------------------------------------------------------------------------------------------
# flags

NOTE_FLAGS = ["include_pitch_spelling", "include_key_signature", "include_time_signature",
              "include_metrical_position", "include_grace_notes", "include_staff", "include_divs_per_quarter"]
REST_FLAGS = ["include_pitch_spelling", "include_key_signature", "include_time_signature",
              "include_metrical_position", "include_grace_notes", "include_staff"]


def basic_configs(flags):
    """all off, all on, every single flag"""
    out = [[], list(flags)]
    for f in flags:
        out.append([f])
    return out


def all_subsets(flags):
    out = []
    for bits in product([0, 1], repeat=len(flags)):
        out.append([f for f, b in zip(flags, bits) if b])
    return out


# ---------------------------------------------------------------------------------------------
# scores: parts in 3/4 (two measures, optional pickup of one quarter), content in quarters

# (kind, onset_q, end_q, PAL index, voice, staff[, tie target index])
CONTENTS = [
    dict(need=1, ev=[]),
    dict(need=1, ev=[("note", 0, 1, 0, 1, 1)]),
    dict(need=1, ev=[("note", 0, 1, 4, 1, 1), ("tie", 1, 3, 3, 2, 1), ("tied", 3, 4, 3, 2, 1)]),
    dict(need=1, ev=[("note", 1, 2, 4, 1, 1), ("note", 1, 2, 0, None, 2), ("grace", 1, 1, 1, 1, 1)]),
    dict(need=1, ev=[("rest", 0, 2, 0, 1, 1), ("note", 2, 3, 2, 1, None)]),
    dict(need=1, ev=[("rest", 0, 3, 0, 1, 1)]),
    dict(need=2, ev=[("note", F(1, 2), F(3, 2), 1, 1, 1), ("note", F(7, 2), 5, 3, 1, 1)]),
]


def score_part_spec(pid, q, content, meter):
    pk = 1 if meter == "34pk" else 0
    objs = []
    bounds = [0] + ([1] if pk else []) + [pk + 3, pk + 6]
    for i in range(len(bounds) - 1):
        objs.append({"k": "measure", "s": bounds[i] * q, "e": bounds[i + 1] * q, "number": i + 1})
    objs.append({"k": "ts", "s": 0, "beats": 3, "beat_type": 4})
    objs.append({"k": "ks", "s": 0, "fifths": 1, "mode": "major"})
    evs = CONTENTS[content]["ev"]
    for k, e in enumerate(evs):
        kind, a, b, p, v, st = e
        s, en = F(a) * q, F(b) * q
        assert s.denominator == 1 and en.denominator == 1
        s, en = int(s), int(en)
        step, octv, alter = PAL[p]
        if kind == "rest":
            objs.append(dict(k="rest", s=s, e=en, id="r%d" % k, voice=v, staff=st))
            continue
        o = dict(k="grace" if kind == "grace" else "note", s=s, e=en, id="n%d" % k, step=step, oct=octv, alter=alter,
                 voice=v, staff=st)
        if kind == "grace":
            o["gtype"] = "acciaccatura"
        if kind == "tie":
            o["tie"] = "n%d" % (k + 1)
        objs.append(o)
    return {"id": pid, "divs": [[0, q]], "objs": objs}


STRUCTS2 = ["score", "list", "score-group", "partgroup"]
STRUCTS3 = ["score", "score-group-first", "list-group-last", "list-group-first"]
DIVS2 = [(2, 3), (3, 2), (4, 6), (1, 1), (2, 2), (2, 4), (6, 4), (1, 3)]
DIVS3 = [(1, 2, 3), (2, 3, 4), (6, 4, 3), (2, 2, 2), (4, 6, 4)]


def score_items(case):
    """list of item specs (part specs / groups) for a score case"""
    parts = [score_part_spec("P%d" % i, q, c, case["meter"]) for i, (q, c) in enumerate(zip(case["q"], case["c"]))]
    st = case["struct"]
    g = {"symbol": "bracket", "name": "g", "number": 1}
    if st in ("score", "list"):
        return parts
    if st in ("score-group", "partgroup"):
        return [{"group": g, "children": parts}]
    if st in ("score-group-first", "list-group-first"):
        return [{"group": g, "children": parts[:2]}] + parts[2:]
    if st == "list-group-last":
        return parts[:1] + [{"group": g, "children": parts[1:]}]
    raise ValueError(st)


def score_cases(n):
    divs = DIVS2 if n == 2 else DIVS3
    structs = STRUCTS2 if n == 2 else STRUCTS3
    for q in divs:
        for c in product(range(len(CONTENTS)), repeat=n):
            if any(qq % CONTENTS[cc]["need"] for qq, cc in zip(q, c)):
                continue
            for meter in ("34", "34pk"):
                for st in structs:
                    yield dict(q=list(q), c=list(c), meter=meter, struct=st)


# ---------------------------------------------------------------------------------------------
# nesting shapes: how n parts are distributed over a list of parts and (nested) part groups

def _nest_items(n, d):
    """items (a part = None, a group = list of items) with n parts and at most d levels of groups"""
    out = []
    if n == 1:
        out.append(None)
    if d > 0:
        out.extend(_nest_forests(n, d - 1))
    return out


def _nest_forests(n, d):
    """non-empty sequences of items with n parts in total (groups of one element included)"""
    out = []
    for k in range(1, n + 1):
        for first in _nest_items(k, d):
            if k == n:
                out.append([first])
            else:
                for rest in _nest_forests(n - k, d):
                    out.append([first] + rest)
    return out


def nest_shapes(n, depth):
    """every shape of a part list with n parts, groups nested at most `depth` deep, as nested lists: the outer
    list is the part list, an inner list a PartGroup, an int the index of a part (numbered left to right)"""
    out = []
    for f in _nest_forests(n, depth):
        k = [0]

        def rec(x):
            if x is None:
                k[0] += 1
                return k[0] - 1
            return [rec(y) for y in x]

        out.append([rec(x) for x in f])
    return out


def nest_depth(shape):
    """levels of groups in a shape (0 = flat list of parts)"""
    return max((1 + nest_depth(x) for x in shape if isinstance(x, list)), default=0)


def nest_items(case):
    """item specs of a score-nest case: parts as in score_items, groups following case['shape']"""
    parts = [score_part_spec("P%d" % i, q, c, case["meter"]) for i, (q, c) in enumerate(zip(case["q"], case["c"]))]
    count = [0]

    def rec(x, level):
        if not isinstance(x, list):
            return parts[x]
        count[0] += 1
        g = {"symbol": "brace" if level % 2 else "bracket", "name": "g%d" % count[0], "number": count[0]}
        return {"group": g, "children": [rec(y, level + 1) for y in x]}

    return [rec(x, 0) for x in case["shape"]]


# ---------------------------------------------------------------------------------------------
# inverse direction: note arrays of <= 3 rows

def inverse_rows(onsets, durs):
    return [(o, d) for o in onsets for d in durs]


INV_ON_Q = [F(0), F(1, 2), F(1), F(1, 3)]
INV_DU_Q = [F(0), F(1, 2), F(1), F(1, 3), F(3, 2)]
INV_ON_T = [F(0), F(1, 2), F(1), F(3, 2), F(2), F(1, 3), F(2, 3), F(1, 4), F(3, 4)]
INV_DU_T = [F(0), F(1, 4), F(1, 2), F(1), F(3, 2), F(2), F(1, 3), F(2, 3), F(3, 4)]
INV_PITCH = {1: [(60,), (61,)], 2: [(60, 64), (64, 60), (61, 61)], 3: [(60, 64, 67), (67, 61, 60)]}


def lcm_den(vals):
    from math import gcd
    L = 1
    for v in vals:
        L = L * v.denominator // gcd(L, v.denominator)
    return L


def inverse_cases(onsets, durs, nrows, kinds=("beat", "div", "both"), voices=(False, True), mults=(1, 2), shift=F(0)):
    rows = inverse_rows(onsets, durs)
    for combo in product(rows, repeat=nrows):
        if nrows > 1 and any(combo[i] > combo[i + 1] for i in range(nrows - 1)) and nrows == 3:
            # three rows: unordered triples only (row order is covered by the two-row space)
            continue
        # precondition: a zero-duration row is a grace note, it belongs to a main note (positive
        # duration) at the same or a later onset
        if any(d == 0 and not any(d2 > 0 and o2 >= o for o2, d2 in combo) for o, d in combo):
            continue
        vals = [x for r in combo for x in (r[0] + shift, r[1])]
        base = lcm_den(vals)
        for pt in INV_PITCH[nrows]:
            for kind in kinds:
                for voice in voices:
                    for m in (mults if kind != "beat" else (1,)):
                        yield dict(kind=kind, rows=[["%d/%d" % (o.numerator, o.denominator), "%d/%d" % (d.numerator, d.denominator), p]
                                                    for (o, d), p in zip(combo, pt)],
                                   divs=base * m, voice=voice, shift="%d/%d" % (shift.numerator, shift.denominator))


# ---------------------------------------------------------------------------------------------
# inverse direction with a time signature: note_array_to_score builds measures (and a pickup measure)

# (source of the time signature, beats, beat type): ts_beats / ts_beat_type columns, the time_sigs argument,
# estimate_time=True (4/4).  Without the columns the function takes a beat for a quarter (documented), so the
# argument forms are enumerated with a beat type of 4 only.
INVM_TS = [["cols", 3, 4], ["cols", 2, 4], ["cols", 6, 8], ["cols", 2, 2], ["arg", 3, 4], ["arg", 4, 4], ["est", 4, 4]]
INVM_PICKUP = [F(0), F(1, 2), F(1), F(3, 2)]           # length of the pickup measure in beats (0 = none)
INVM_START = [F(0), F(1, 2), F(1), F(3, 2), F(2), F(7, 2)]  # position of a row in beats after division 0
INVM_DUR = [F(0), F(1, 2), F(1), F(5, 2), F(4)]
INVM_START3 = [F(0), F(1, 2), F(1), F(2)]
INVM_DUR3 = [F(1, 2), F(1), F(5, 2)]
INVM_TS_TRIP = [["cols", 3, 4], ["cols", 6, 8], ["arg", 4, 4]]
INVM_PICKUP_TRIP = [F(0), F(1, 3), F(2, 3), F(1), F(4, 3), F(3, 2)]  # (3/2: last negative onset -7/6, -5/6; repaired in /repo e6b4838)
INVM_START_TRIP = [F(0), F(1, 3), F(2, 3), F(1), F(2)]
INVM_DUR_TRIP = [F(1, 3), F(2, 3), F(1), F(2)]
INVM_PITCH = {1: [(60,)], 2: [(60, 64), (61, 61)], 3: [(60, 64, 67)]}


def fstr(x):
    return "%d/%d" % (x.numerator, x.denominator)


def invm_voice(mode, k):
    """voice of row k: mode 0 = no voice column, 1 = voices 1, 2 alternating by row, 2 = every row in voice 1"""
    return None if mode == 0 else (1 + k % 2 if mode == 1 else 1)


def inverse_measure_cases(ts_list, pickups, starts, durs, nrows, kinds=("both", "beat", "div"), voices=(0, 1, 2), mults=(1,)):
    """note arrays of `nrows` rows (sorted, with repetition) placed on a timeline whose division 0 is the start of
    a pickup measure of `pickup` beats (onset_beat = start - pickup, onset_div = start x divisions per beat).
    Preconditions (generator side):
      - the pickup is shorter than a measure and, when there is one, at least one row starts inside it (otherwise
        the array does not state it);
      - a zero-duration row (grace note) has a row of positive duration at its onset in its voice (create_part
        documents that grace notes without a main note are removed), so it needs a voice column;
      - beat-only arrays: the beat is a quarter (documented), beat type 4; division-only arrays have no beat
        onsets, hence no pickup."""
    from itertools import combinations_with_replacement

    rows = inverse_rows(starts, durs)
    for src, nb, bt in ts_list:
        q = F(4, bt)
        for P in pickups:
            if P >= nb:
                continue
            for combo in combinations_with_replacement(rows, nrows):
                if P > 0 and not any(s < P for s, _d in combo):
                    continue
                vals = [x * q for r in combo for x in r] + [P * q]
                base = lcm_den(vals)
                for pt in INVM_PITCH[nrows]:
                    for kind in kinds:
                        if (kind == "beat" and bt != 4) or (kind == "div" and P > 0):
                            continue
                        for vm in voices:
                            if any(d == 0 and not (vm and any(d2 > 0 and s2 == s and invm_voice(vm, j) == invm_voice(vm, k)
                                                                for j, (s2, d2) in enumerate(combo)))
                                   for k, (s, d) in enumerate(combo)):
                                continue
                            for m in (mults if kind != "beat" else (1,)):
                                yield dict(kind=kind, ts=[nb, bt], src=src, pickup=fstr(P), voice=vm, divs=base * m,
                                           rows=[[fstr(s - P), fstr(d), p] for (s, d), p in zip(combo, pt)])


# ---------------------------------------------------------------------------------------------
# inverse direction: note arrays whose ts_beats / ts_beat_type columns change along the array

INVTS_TS = [[2, 4], [3, 4], [6, 8], [2, 2]]
INVTS_MEASURES = [1, 2]
# what a stretch (the measures under one time signature) contains:
#   beats: a note on every beat; first: one note of a beat at its start; bar: one note from its start to its end
#   (tied over its barlines when rebuilt); cross: a note of a beat at its start and a note of two beats on its last
#   beat, which sounds on into the next stretch (or past the last barline)
INVTS_PATTERNS = ["beats", "first", "bar", "cross"]
INVTS_DIVS = 4


def inverse_ts_sequences():
    """every sequence of 2 or 3 time signatures of INVTS_TS in which neighbours differ (a signature may come back
    after another one: A B A)"""
    from itertools import product

    for n in (2, 3):
        for seq in product(INVTS_TS, repeat=n):
            if all(seq[i] != seq[i + 1] for i in range(n - 1)):
                yield [list(x) for x in seq]


def inverse_ts_cases(mixed):
    """mixed=False: the same pattern in every stretch; mixed=True: every other assignment of patterns to stretches.
    Preconditions (generator side): every stretch starts with a note (the array states a signature at the onsets of
    its rows only), lasts a whole number of measures, the pickup measure (one beat, with one note) starts at division
    0; beat-only arrays: every beat is a quarter (documented); division-only arrays: no pickup."""
    from itertools import product

    for seq in inverse_ts_sequences():
        n = len(seq)
        for ms in product(INVTS_MEASURES, repeat=n):
            for pats in product(INVTS_PATTERNS, repeat=n):
                if (len(set(pats)) > 1) != mixed:
                    continue
                st = [[nb, bt, m, p] for (nb, bt), m, p in zip(seq, ms, pats)]
                for pickup in (0, 1):
                    for kind in ("both", "beat", "div"):
                        if (kind == "beat" and any(bt != 4 for _nb, bt in seq)) or (kind == "div" and pickup):
                            continue
                        for vm in (1, 0):
                            yield dict(seq=st, pickup=pickup, kind=kind, voice=vm, divs=INVTS_DIVS)
