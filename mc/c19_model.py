"""C19 - abstract scores, two small independent writers (MEI text, Humdrum **kern text), the
reference reading (exact Fractions of a quarter note) and the observer of a loaded Score.

Nothing in this module calls partitura's readers or writers; `observe` only reads attributes of
the objects a loader returned (start.t / end.t, the quarter table, note attributes, links).

Leaf event (JSON-able dict)
  k   'n' note | 'c' chord | 'r' rest | 's' space (MEI only) | 'm' measure rest (MEI only) | 'g' grace note
  v   note value as the denominator of a whole note (1, 2, 4, 8, 16, 32; 0 = breve)
  d   number of augmentation dots (0..2)
  p   list of [step, alter|None, octave]  (one entry for n/g, several for c)
  tie list of 0/1 per pitch: tied to the same pitch in the next sounding event of the same layer/spine
  acc (MEI) how the accidental is written: 'attr' | 'ges' | 'child' | 'childges'
  st  (MEI) staff attribute written on the element (cross-staff notation); on a chord: on the <chord> element
  pst (MEI, chords) list with one entry per pitch: staff attribute written on that <note> of the chord, None = no attribute.
      The staff of a chord member is the most specific statement: its own @staff, else the chord's @staff, else the
      enclosing <staff>.  (export->load parts: the staff of that Note object)
  clef (MEI) ['F', 4]: a <clef> element is written in the layer just before this event
  nosym (export->load parts only) the object is created without symbolic_duration; there 's' is a gap in the voice
Containers (any nesting):  {'k': 'tup', 'num': 3, 'nb': 2, 'ev': [...]}   {'k': 'beam', 'ev': [...]}
"""
from fractions import Fraction as F

from .ir import midi_pitch  # noqa: F401  (re-exported for the check)


# ---------------------------------------------------------------------------------------------
# exact arithmetic


def value_q(v):
    return F(8) if v == 0 else F(4, v)


def leaf_dur(ev, tup=None):
    """quarter length the notation denotes: value, dots, tuplet ratio; grace notes have none"""
    if ev["k"] == "g":
        return F(0)
    d = value_q(ev["v"]) * (2 - F(1, 2 ** ev.get("d", 0)))
    if tup:
        d = d * F(tup[1], tup[0])
    return d


def flatten(evs, tup=None, beam=False, out=None):
    """leaves in document order as (leaf, tuplet (num, numbase) | None)"""
    if out is None:
        out = []
    for e in evs:
        if e["k"] == "tup":
            assert tup is None, "nested tuplets are outside the supported subset"
            flatten(e["ev"], (e["num"], e["nb"]), beam, out)
        elif e["k"] == "beam":
            flatten(e["ev"], tup, True, out)
        else:
            out.append((e, tup))
    return out


def measure_len(meter):
    return F(4 * meter[0], meter[1])


def seq_len(evs, meter):
    tot = F(0)
    for leaf, tup in flatten(evs):
        tot += measure_len(meter) if leaf["k"] == "m" else leaf_dur(leaf, tup)
    return tot


def norm_alter(a):
    return 0 if a is None else int(a)


# ---------------------------------------------------------------------------------------------
# reference reading
#
# A reading is {'parts': [part, ...]}, part = {
#   'notes': sorted list of (onset, dur, kind, step, alter, octave, vlabel, staff)   kind in note|grace|rest
#   'ties':  sorted list of (key_from, key_to) with key = (onset, step, alter, octave, vlabel)
#   'measures': sorted list of measure starts; 'opt_measures': starts that may additionally appear
#   'ts': [(q, beats, beat_type)], 'ks': [(q, fifths, mode|None)], 'clefs': [(q, staff, sign, line)]
#   'sounding': sorted list of (onset, dur, midi) with tie chains merged (graces excluded) }
# vlabel is the voice number for MEI (layer @n is encoded) and an opaque label for kern (only the
# partition of notes into voices is compared there).


class _Layer(object):
    """walks one layer/spine over the measures and records notes and ties"""

    def __init__(self, part, vlabel, staff):
        self.part = part
        self.vlabel = vlabel
        self.staff = staff
        self.open = {}  # pitch -> key of the note waiting for its tie end

    def run(self, evs, pos, meter):
        for leaf, tup in flatten(evs):
            k = leaf["k"]
            if leaf.get("clef"):
                self.part["clefs"].append((pos, self.staff, leaf["clef"][0], leaf["clef"][1]))
            if k == "m":
                d = measure_len(meter)
                self.part["notes"].append((pos, d, "rest", None, None, None, self.vlabel, leaf.get("st", self.staff)))
                self.open = {}
            elif k == "s":
                d = leaf_dur(leaf, tup)
            elif k == "r":
                d = leaf_dur(leaf, tup)
                self.part["notes"].append((pos, d, "rest", None, None, None, self.vlabel, leaf.get("st", self.staff)))
                self.open = {}
            else:
                d = leaf_dur(leaf, tup)
                kind = "grace" if k == "g" else "note"
                ties = leaf.get("tie") or [0] * len(leaf["p"])
                new_open = {}
                pst = leaf.get("pst") or [None] * len(leaf["p"])
                for (step, alter, octv), t, own in zip(leaf["p"], ties, pst):
                    pk = (step, norm_alter(alter), octv)
                    staff = own or leaf.get("st", self.staff)
                    self.part["notes"].append((pos, d, kind, step, norm_alter(alter), octv, self.vlabel, staff))
                    key = (pos, step, norm_alter(alter), octv, self.vlabel)
                    if k != "g" and pk in self.open:
                        self.part["ties"].append((self.open[pk], key))
                    if t:
                        new_open[pk] = key
                if k != "g":
                    self.open = new_open
            pos += d
        return pos


def _finish(part):
    part["notes"].sort(key=_nkey)
    part["ties"].sort()
    part["measures"] = sorted(set(part["measures"]))
    part["ts"].sort()
    part["ks"].sort(key=lambda x: (x[0], x[1], x[2] or ""))
    part["clefs"].sort()
    part["sounding"] = sounding(part["notes"], part["ties"])
    return part


def _nkey(n):
    return (n[0], n[1], n[2], n[3] or "", n[4] or 0, n[5] or 0, str(n[6]), n[7] or 0)


def sounding(notes, ties):
    """(onset, duration, midi pitch) with tie chains merged; grace notes and rests left out"""
    nxt = {a: b for a, b in ties}
    has_prev = {b for a, b in ties}
    by_key = {}
    for n in notes:
        if n[2] == "note":
            by_key[(n[0], n[3], n[4], n[5], n[6])] = n
    out = []
    for key, n in by_key.items():
        if key in has_prev:
            continue
        end = n[0] + n[1]
        k = key
        guard = 0
        while k in nxt and nxt[k] in by_key and guard < 100:
            k = nxt[k]
            end = by_key[k][0] + by_key[k][1]
            guard += 1
        out.append((n[0], end - n[0], midi_pitch(n[3], n[4], n[5])))
    return sorted(out)


def _new_part():
    return {"notes": [], "ties": [], "measures": [], "opt_measures": [], "ts": [], "ks": [], "clefs": []}


def meter_at(doc, mi):
    m = doc["meter"]
    for k in sorted(int(x) for x in (doc.get("chg") or {})):
        if k <= mi and (doc["chg"][str(k)].get("meter")):
            m = doc["chg"][str(k)]["meter"]
    return m


def reference_mei(doc):
    """doc = {'meter': [b, t], 'key': [fifths, mode|None], 'nm': int, 'staves': [{'n', 'clef': [sign, line],
    'layers': [{'n', 'm': [[ev..] per measure]}]}], 'chg': {str(measure index): {'meter':.., 'key':..}},
    'mei': style}.  Every staffDef is a part; a layer is a voice; all staves share the bar grid; a bar
    is as long as its longest layer."""
    parts = []
    walkers = []
    for st in doc["staves"]:
        p = _new_part()
        p["ts"].append((F(0), doc["meter"][0], doc["meter"][1]))
        p["ks"].append((F(0), doc["key"][0], doc["key"][1]))
        p["clefs"].append((F(0), st["n"], st["clef"][0], st["clef"][1]))
        parts.append(p)
        walkers.append([_Layer(p, ly["n"], st["n"]) for ly in st["layers"]])
    pos = F(0)
    for mi in range(doc["nm"]):
        chg = (doc.get("chg") or {}).get(str(mi))
        if chg:
            for p in parts:
                if chg.get("meter"):
                    p["ts"].append((pos, chg["meter"][0], chg["meter"][1]))
                if chg.get("key"):
                    p["ks"].append((pos, chg["key"][0], chg["key"][1]))
        meter = meter_at(doc, mi)
        ends = [pos]
        for st, p, ws in zip(doc["staves"], parts, walkers):
            p["measures"].append(pos)
            for ly, w in zip(st["layers"], ws):
                ends.append(w.run(ly["m"][mi], pos, meter))
        pos = max(ends)
    for p in parts:
        p["end"] = pos
        _finish(p)
    return {"parts": parts}


def split_spec(x):
    """a spine split is given as the sub-spine's events (split at the barline) or as {'at': number of events of the
    main spine before the '*^', 'sub': events}; the two sub-spines are merged at the end of the measure"""
    if isinstance(x, dict):
        return x["at"], x["sub"]
    return 0, x


def reference_kern(doc, force_same_part=False):
    """doc = {'meter', 'key': [fifths, None], 'nm', 'spines': [{'staff': n|None, 'clef': [sign, line]|None,
    'part': label, 'm': [[ev..] per measure], 'split': {str(mi): [ev..]}}], 'chg', 'kern': style}.
    Spines with the same 'part' label (only produced when the style marks them with the same *part /
    *I interpretation) share a part, every other spine is a part of its own.  The sub-spine opened by
    '*^' is another voice of the same part and staff.  A barline starts a measure.
    force_same_part: the reading under load_kern(..., force_same_part=True): the caller asks for ONE part whatever
    the spines declare; every spine is a voice of it, everything else (onsets, durations, staves, measures,
    signatures) is what the notation denotes."""
    style = doc.get("kern") or {}
    groups = []
    for si, sp in enumerate(doc["spines"]):
        lab = sp.get("part")
        hit = None
        if force_same_part:
            hit = groups[0] if groups else None
        elif style.get("same_part") and lab is not None:
            for g in groups:
                if g[0] == lab:
                    hit = g
        if hit is None:
            groups.append([lab, [si]])
        else:
            hit[1].append(si)
    parts = []
    first_bar = style.get("first_bar", True)
    for lab, sis in groups:
        p = _new_part()
        p["ts"].append((F(0), doc["meter"][0], doc["meter"][1]))
        p["ks"].append((F(0), doc["key"][0], None))
        pos = F(0)
        walkers = {}
        for si in sis:
            sp = doc["spines"][si]
            staff = sp.get("staff") or 1
            if sp.get("clef"):
                p["clefs"].append((F(0), staff, sp["clef"][0], sp["clef"][1]))
            walkers[si] = (_Layer(p, "s%d" % si, staff), _Layer(p, "s%d+" % si, staff))
        for mi in range(doc["nm"]):
            chg = (doc.get("chg") or {}).get(str(mi))
            if chg:
                if chg.get("meter"):
                    p["ts"].append((pos, chg["meter"][0], chg["meter"][1]))
                if chg.get("key"):
                    p["ks"].append((pos, chg["key"][0], None))
            meter = meter_at(doc, mi)
            if mi > 0 or first_bar:
                p["measures"].append(pos)
            else:
                p["opt_measures"].append(pos)  # music before the first barline (pickup)
            ends = []
            for si in sis:
                sp = doc["spines"][si]
                ends.append(walkers[si][0].run(sp["m"][mi], pos, meter))
                sub = (sp.get("split") or {}).get(str(mi))
                if sub is not None:
                    at, sub = split_spec(sub)
                    off = sum((leaf_dur(l, t) for l, t in flatten(sp["m"][mi])[:at]), F(0))
                    ends.append(walkers[si][1].run(sub, pos + off, meter))
            assert len(set(ends)) == 1, "kern spines of one part must be aligned"
            pos = ends[0]
        p["end"] = pos
        p["opt_measures"].append(pos)  # a final barline may open an empty measure
        _finish(p)
        parts.append(p)
    return {"parts": parts}


# ---------------------------------------------------------------------------------------------
# MEI writer

MEI_ACC = {-2: "ff", -1: "f", 0: "n", 1: "s", 2: "ss"}
XMLID = "xml:id"


def _mei_dur(v):
    return "breve" if v == 0 else str(v)


class _Ids(object):
    def __init__(self):
        self.n = 0

    def new(self, pre):
        self.n += 1
        return "%s%d" % (pre, self.n)


def _mei_sig(fifths):
    if fifths == 0:
        return "0"
    return "%d%s" % (abs(fifths), "s" if fifths > 0 else "f")


def mei_text(doc):
    """Serialise the abstract score as MEI.  Returns (text, info) where info maps nothing the oracle needs
    (ids are private to the writer); ties are written as <tie startid endid> elements."""
    style = doc.get("mei") or {}
    ids = _Ids()
    ppq = style.get("ppq")  # None | int: declared divisions, dur.ppq written on every duration
    out = []
    w = out.append
    w('<?xml version="1.0" encoding="UTF-8"?>')
    w('<mei xmlns="http://www.music-encoding.org/ns/mei" meiversion="4.0.1">')
    w("<meiHead><fileDesc><titleStmt><title>c19</title></titleStmt><pubStmt/></fileDesc></meiHead>")
    w("<music><body><mdiv xml:id=\"%s\"><score xml:id=\"%s\">" % (ids.new("md"), ids.new("sc")))
    meter_decl = style.get("meter", "staffdef-child")
    key_decl = style.get("key", "staffdef-child")
    clef_decl = style.get("clef", "child")
    sd_attr = ""
    if meter_decl == "scoredef-attr":
        sd_attr += ' meter.count="%d" meter.unit="%d"' % tuple(doc["meter"])
    if key_decl == "scoredef-attr":
        sd_attr += ' key.sig="%s"' % _mei_sig(doc["key"][0])
        if doc["key"][1]:
            sd_attr += ' key.mode="%s"' % doc["key"][1]
    w('<scoreDef xml:id="%s"%s>' % (ids.new("sd"), sd_attr))
    if meter_decl == "scoredef-child":
        w('<meterSig xml:id="%s" count="%d" unit="%d"/>' % (ids.new("ms"), doc["meter"][0], doc["meter"][1]))
    if key_decl == "scoredef-child":
        w('<keySig xml:id="%s" sig="%s"%s/>' % (ids.new("ks"), _mei_sig(doc["key"][0]),
                                               ' mode="%s"' % doc["key"][1] if doc["key"][1] else ""))
    w('<staffGrp xml:id="%s">' % ids.new("sg"))
    nested = style.get("group") == "nested"
    if nested:
        w('<staffGrp xml:id="%s" symbol="brace"><label>Piano</label>' % ids.new("sg"))
    for st in doc["staves"]:
        a = ' n="%d" lines="5"' % st["n"]
        if ppq:
            a += ' ppq="%d"' % ppq
        if clef_decl == "attr":
            a += ' clef.shape="%s" clef.line="%d"' % (st["clef"][0], st["clef"][1])
        if meter_decl == "staffdef-attr":
            a += ' meter.count="%d" meter.unit="%d"' % tuple(doc["meter"])
        if key_decl == "staffdef-attr":
            a += ' key.sig="%s"' % _mei_sig(doc["key"][0])
            if doc["key"][1]:
                a += ' key.mode="%s"' % doc["key"][1]
        w('<staffDef xml:id="%s"%s>' % (ids.new("P"), a))
        if style.get("label"):
            w("<label>Staff %d</label>" % st["n"])
        if clef_decl == "child":
            w('<clef xml:id="%s" shape="%s" line="%d"/>' % (ids.new("cl"), st["clef"][0], st["clef"][1]))
        if key_decl == "staffdef-child":
            w('<keySig xml:id="%s" sig="%s"%s/>' % (ids.new("ks"), _mei_sig(doc["key"][0]),
                                                   ' mode="%s"' % doc["key"][1] if doc["key"][1] else ""))
        if meter_decl == "staffdef-child":
            w('<meterSig xml:id="%s" count="%d" unit="%d"/>' % (ids.new("ms"), doc["meter"][0], doc["meter"][1]))
        w("</staffDef>")
    if nested:
        w("</staffGrp>")
    w("</staffGrp></scoreDef>")
    w('<section xml:id="%s">' % ids.new("se"))

    # tie bookkeeping: per (staff index, layer index): pitch -> id of the open tie start
    open_ties = {}
    pending = []  # (measure index of start, measure index of end, startid, endid)

    def dur_attrs(leaf, tup):
        a = ' dur="%s"' % _mei_dur(leaf["v"])
        if leaf.get("d"):
            a += ' dots="%d"' % leaf["d"]
        elif style.get("dots0"):
            a += ' dots="0"'
        if ppq:
            dq = leaf_dur(dict(leaf, k="n"), tup) * ppq
            assert dq.denominator == 1
            a += ' dur.ppq="%d"' % int(dq)
        return a

    def note_xml(p, leaf, extra, nid):
        step, alter, octv = p
        a = ' pname="%s" oct="%d"' % (step.lower(), octv)
        child = ""
        how = leaf.get("acc", "attr")
        if alter is not None:
            if how == "attr":
                a += ' accid="%s"' % MEI_ACC[alter]
            elif how == "ges":
                a += ' accid.ges="%s"' % MEI_ACC[alter]
            elif how == "child":
                child = '<accid xml:id="%s" accid="%s"/>' % (ids.new("ac"), MEI_ACC[alter])
            else:
                child = '<accid xml:id="%s" accid.ges="%s"/>' % (ids.new("ac"), MEI_ACC[alter])
        if child:
            return '<note xml:id="%s"%s%s>%s</note>' % (nid, extra, a, child)
        return '<note xml:id="%s"%s%s/>' % (nid, extra, a)

    def render(evs, tup, key, mi, measure_ties):
        for e in evs:
            k = e["k"]
            if k == "tup":
                w('<tuplet xml:id="%s" num="%d" numbase="%d">' % (ids.new("tu"), e["num"], e["nb"]))
                render(e["ev"], (e["num"], e["nb"]), key, mi, measure_ties)
                w("</tuplet>")
                continue
            if k == "beam":
                w('<beam xml:id="%s">' % ids.new("be"))
                render(e["ev"], tup, key, mi, measure_ties)
                w("</beam>")
                continue
            if e.get("clef"):
                w('<clef xml:id="%s" shape="%s" line="%d"/>' % (ids.new("cl"), e["clef"][0], e["clef"][1]))
            st_attr = ' staff="%d"' % e["st"] if e.get("st") else ""
            if k == "m":
                w('<mRest xml:id="%s"%s/>' % (ids.new("mr"), st_attr))
                open_ties[key] = {}
            elif k == "s":
                w('<space xml:id="%s"%s/>' % (ids.new("sp"), dur_attrs(e, tup)))
            elif k == "r":
                w('<rest xml:id="%s"%s%s/>' % (ids.new("r"), dur_attrs(e, tup), st_attr))
                open_ties[key] = {}
            else:
                ties = e.get("tie") or [0] * len(e["p"])
                new_open = {}
                nids = [ids.new("n") for _ in e["p"]]
                if k == "c":
                    w('<chord xml:id="%s"%s%s>' % (ids.new("ch"), dur_attrs(e, tup), st_attr))
                    for p, nid, own in zip(e["p"], nids, e.get("pst") or [None] * len(nids)):
                        w(note_xml(p, e, ' staff="%d"' % own if own else "", nid))
                    w("</chord>")
                else:
                    extra = dur_attrs(e, tup) + st_attr
                    if k == "g":
                        extra += ' grace="%s"' % (e.get("gr") or "unacc")
                    w(note_xml(e["p"][0], e, extra, nids[0]))
                if k != "g":
                    cur = open_ties.get(key, {})
                    for p, t, nid in zip(e["p"], ties, nids):
                        pk = (p[0], norm_alter(p[1]), p[2])
                        if pk in cur:
                            pending.append((cur[pk][1], mi, cur[pk][0], nid))
                        if t:
                            new_open[pk] = (nid, mi)
                    open_ties[key] = new_open

    tie_place = style.get("tie_place", "start")  # the <tie> goes into the measure of its start or end note
    measures_xml = []
    for mi in range(doc["nm"]):
        chg = (doc.get("chg") or {}).get(str(mi))
        if chg:
            a = ""
            ch = ""
            how = style.get("chg", "attr")
            if chg.get("meter"):
                if how == "attr":
                    a += ' meter.count="%d" meter.unit="%d"' % tuple(chg["meter"])
                else:
                    ch += '<meterSig xml:id="%s" count="%d" unit="%d"/>' % (ids.new("ms"), chg["meter"][0], chg["meter"][1])
            if chg.get("key"):
                if how == "attr":
                    a += ' key.sig="%s"' % _mei_sig(chg["key"][0])
                    if chg["key"][1]:
                        a += ' key.mode="%s"' % chg["key"][1]
                else:
                    ch += '<keySig xml:id="%s" sig="%s"%s/>' % (ids.new("ks"), _mei_sig(chg["key"][0]),
                                                               ' mode="%s"' % chg["key"][1] if chg["key"][1] else "")
            measures_xml.append(("raw", '<scoreDef xml:id="%s"%s>%s</scoreDef>' % (ids.new("sd"), a, ch)))
        start = len(out)
        bar = (style.get("bars") or {}).get(str(mi)) or {}
        a = ""
        if bar.get("left"):
            a += ' left="%s"' % bar["left"]
        if bar.get("right"):
            a += ' right="%s"' % bar["right"]
        w('<measure xml:id="%s" n="%d"%s>' % (ids.new("m"), mi + 1, a))
        for si, st in enumerate(doc["staves"]):
            w('<staff xml:id="%s" n="%d">' % (ids.new("st"), st["n"]))
            for li, ly in enumerate(st["layers"]):
                w('<layer xml:id="%s" n="%d">' % (ids.new("ly"), ly["n"]))
                render(ly["m"][mi], None, (si, li), mi, None)
                w("</layer>")
            w("</staff>")
        body = out[start:]
        del out[start:]
        measures_xml.append(("measure", mi, body))
    # place tie elements
    ties_in = {}
    for ms, me, a, b in pending:
        ties_in.setdefault(ms if tie_place == "start" else me, []).append((a, b))
    endings = style.get("endings") or {}  # {str(first measure index): [number, count of measures]}
    close_at = {}
    for kind_rec in measures_xml:
        if kind_rec[0] == "raw":
            w(kind_rec[1])
            continue
        _, mi, body = kind_rec
        if str(mi) in endings:
            num, cnt = endings[str(mi)]
            w('<ending xml:id="%s" n="%d">' % (ids.new("en"), num))
            close_at[mi + cnt - 1] = True
        for line in body:
            w(line)
        for a, b in ties_in.get(mi, []):
            w('<tie xml:id="%s" startid="#%s" endid="#%s"/>' % (ids.new("ti"), a, b))
        w("</measure>")
        if close_at.get(mi):
            w("</ending>")
    w("</section></score></mdiv></body></music></mei>")
    return "\n".join(out) + "\n"


# ---------------------------------------------------------------------------------------------
# kern writer

KERN_ACC = {-2: "--", -1: "-", 0: "n", 1: "#", 2: "##"}


def kern_pitch(step, alter, octv):
    if octv >= 4:
        s = step.lower() * (octv - 3)
    else:
        s = step.upper() * (4 - octv)
    if alter is not None:
        s += KERN_ACC[alter]
    return s


def kern_recip(leaf, tup):
    """reciprocal duration: a note that is 1/x of a whole note is written x (x*num/numbase in a tuplet)"""
    v = leaf["v"]
    r = F(v) if v else F(1, 2)
    if tup:
        r = r * F(tup[0], tup[1])
    if r.denominator == 1:
        s = str(r.numerator)
    elif r == F(1, 2):
        s = "0"
    else:
        s = "%d%%%d" % (r.numerator, r.denominator)
    return s + "." * leaf.get("d", 0)


KEY_SHARPS = ["f#", "c#", "g#", "d#", "a#", "e#", "b#"]
KEY_FLATS = ["b-", "e-", "a-", "d-", "g-", "c-", "f-"]


def kern_keysig(fifths):
    names = KEY_SHARPS[:fifths] if fifths >= 0 else KEY_FLATS[:-fifths]
    return "*k[%s]" % "".join(names)


def _kern_tokens(evs, style):
    """flatten one spine's measure into [(onset offset, is_grace, token)]; tie state handled by caller"""
    out = []
    pos = F(0)
    leaves = flatten(evs)
    # beams: mark first/last leaf of each beam container
    beam_first, beam_last = set(), set()

    def marks(es):
        for e in es:
            if e["k"] == "beam":
                fl = [id(l) for l, _ in flatten(e["ev"]) if l["k"] in ("n", "c")]
                if len(fl) >= 2:
                    beam_first.add(fl[0])
                    beam_last.add(fl[-1])
                marks(e["ev"])
            elif e["k"] == "tup":
                marks(e["ev"])

    marks(evs)
    for leaf, tup in leaves:
        assert leaf["k"] in ("n", "c", "r", "g"), "kern subset has no %r" % leaf["k"]
        out.append([pos, leaf, tup, "L" if id(leaf) in beam_first else ("J" if id(leaf) in beam_last else "")])
        pos += leaf_dur(leaf, tup)
    return out, pos


class _KernSpine(object):
    def __init__(self, style):
        self.open = {}
        self.style = style

    def token(self, leaf, tup, beam):
        k = leaf["k"]
        if k == "r":
            self.open = {}
            return kern_recip(leaf, tup) + "r"
        if k == "g":
            p = leaf["p"][0]
            if self.style.get("grace") == "bare":
                return kern_pitch(*p) + "q"
            return kern_recip(leaf, None) + kern_pitch(*p) + "q"
        ties = leaf.get("tie") or [0] * len(leaf["p"])
        toks = []
        new_open = {}
        for p, t in zip(leaf["p"], ties):
            pk = (p[0], norm_alter(p[1]), p[2])
            closing = pk in self.open
            pre = ""
            post = ""
            if closing and t:
                post = "_"
            elif closing:
                post = "]"
            elif t:
                pre = "["
            if t:
                new_open[pk] = True
            toks.append(pre + kern_recip(leaf, tup) + kern_pitch(*p) + post + beam)
        self.open = new_open
        return " ".join(toks)


def kern_text(doc):
    style = doc.get("kern") or {}
    spines = doc["spines"]
    ns = len(spines)
    lines = []
    if style.get("comments"):
        lines.append("!!!COM: Anonymous")
        lines.append("!!!OTL: c19")
    lines.append("\t".join(["**kern"] * ns))
    if style.get("same_part"):
        how = style["same_part"]
        if how == "part":
            lines.append("\t".join("*part%s" % sp["part"] for sp in spines))
        else:
            lines.append("\t".join("*I%s" % sp["part"] for sp in spines))
    elif style.get("diff_part"):
        how = style["diff_part"]
        if how == "part":
            lines.append("\t".join("*part%d" % (i + 1) for i, sp in enumerate(spines)))
        else:
            lines.append("\t".join("*I%s" % ["cello", "violn", "flt"][i] for i, sp in enumerate(spines)))
    if any(sp.get("staff") for sp in spines):
        lines.append("\t".join(("*staff%d" % sp["staff"]) if sp.get("staff") else "*" for sp in spines))
    if any(sp.get("clef") for sp in spines):
        lines.append("\t".join(("*clef%s%d" % tuple(sp["clef"])) if sp.get("clef") else "*" for sp in spines))
    lines.append("\t".join([kern_keysig(doc["key"][0])] * ns))
    lines.append("\t".join(["*M%d/%d" % tuple(doc["meter"])] * ns))
    if style.get("comments"):
        # other interpretations and a local comment that a reader has to step over
        lines.append("\t".join(["*met(c)" if tuple(doc["meter"]) == (4, 4) else "*"] * ns))
        lines.append("\t".join(["*MM96"] * ns))
        lines.append("\t".join(["!"] * ns))
    states = [(_KernSpine(style), _KernSpine(style)) for _ in spines]
    first_bar = style.get("first_bar", True)
    for mi in range(doc["nm"]):
        if mi > 0 or first_bar:
            tok = "=%d" % (mi + 1) if style.get("bar_numbers", True) else "="
            if mi == 0 and style.get("invisible_first"):
                tok += "-"
            lines.append("\t".join([tok] * ns))
        chg = (doc.get("chg") or {}).get(str(mi))
        if chg:
            if chg.get("key"):
                lines.append("\t".join([kern_keysig(chg["key"][0])] * ns))
            if chg.get("meter"):
                lines.append("\t".join(["*M%d/%d" % tuple(chg["meter"])] * ns))
        # columns of this measure
        cols = []  # (spine index, sub index, token list)
        split_here = [(sp.get("split") or {}).get(str(mi)) is not None for sp in spines]
        assert sum(split_here) <= 1, "one split per measure"
        split_onset = None
        total = None
        for si, sp in enumerate(spines):
            toks, tot = _kern_tokens(sp["m"][mi], style)
            cols.append((si, 0, toks))
            if split_here[si]:
                at, sub = split_spec(sp["split"][str(mi)])
                split_onset = toks[at][0] if at < len(toks) else tot
                toks2, tot2 = _kern_tokens(sub, style)
                for t in toks2:
                    t[0] += split_onset
                assert tot2 + split_onset == tot
                cols.append((si, 1, toks2))
            assert total is None or total == tot, "kern measure: spines differ in length"
            total = tot
        # rows: (onset, grace order) ; a grace note gets a row of its own before the main note
        rows = {}
        for ci, (si, sub, toks) in enumerate(cols):
            gcount = {}
            for pos, leaf, tup, beam in toks:
                if leaf["k"] == "g":
                    gi = gcount.get(pos, 0)
                    gcount[pos] = gi + 1
                    key = (pos, 0, gi)
                else:
                    key = (pos, 1, 0)
                rows.setdefault(key, {})[ci] = states[si][sub].token(leaf, tup, beam)
        opened = False
        for key in sorted(rows):
            if any(split_here) and not opened and key[0] >= split_onset:
                lines.append("\t".join("*^" if s else "*" for s in split_here))
                opened = True
            lines.append("\t".join(rows[key].get(ci, ".") for ci in range(len(cols)) if opened or cols[ci][1] == 0))
        if any(split_here):
            assert opened
            toks = []
            for si in range(ns):
                toks.extend(["*v", "*v"] if split_here[si] else ["*"])
            lines.append("\t".join(toks))
    if style.get("final_bar", True):
        lines.append("\t".join(["=="] * ns))
    lines.append("\t".join(["*-"] * ns))
    return "\n".join(lines) + "\n"


# ---------------------------------------------------------------------------------------------
# observer of a loaded score


def _quarter(part, t):
    """exact quarter position of timeline time t from the part's divisions table"""
    qt = [int(x) for x in part._quarter_times]
    qd = [F(x).limit_denominator(10 ** 6) if not float(x).is_integer() else F(int(x)) for x in part._quarter_durations]
    tot = F(0)
    for i, (a, d) in enumerate(zip(qt, qd)):
        b = qt[i + 1] if i + 1 < len(qt) else None
        if t <= a:
            break
        hi = t if b is None or t < b else b
        tot += F(hi - a) / d
    return tot


def observe(score):
    """reading of the loaded Score in the same shape as the reference (voices are the loader's numbers)"""
    import partitura.score as S

    parts = []
    for part in score.parts:
        p = _new_part()
        p["id"] = part.id
        p["divs"] = [str(x) for x in part._quarter_durations]
        p["int_times"] = True
        notes = []
        for o in part.iter_all(S.GenericNote, include_subclasses=True):
            s, e = o.start.t, o.end.t
            for t in (s, e):
                if int(t) != t:
                    p["int_times"] = False
            on = _quarter(part, int(s))
            du = _quarter(part, int(e)) - on
            if isinstance(o, S.Rest):
                kind, sp = "rest", (None, None, None)
            elif isinstance(o, S.GraceNote):
                kind, sp = "grace", (o.step, norm_alter(o.alter), o.octave)
            elif isinstance(o, S.Note):
                kind, sp = "note", (o.step, norm_alter(o.alter), o.octave)
            else:
                kind, sp = type(o).__name__, (None, None, None)
            notes.append((o, (on, du, kind, sp[0], sp[1], sp[2], o.voice, o.staff)))
        p["notes"] = sorted((n for _, n in notes), key=_nkey)
        key_of = {id(o): (n[0], n[3], n[4], n[5], n[6]) for o, n in notes}
        ties = []
        bad_links = []
        for o, n in notes:
            if getattr(o, "tie_next", None) is not None:
                nx = o.tie_next
                if id(nx) not in key_of:
                    bad_links.append("tie_next of %s leaves the part" % (o.id,))
                    continue
                ties.append((key_of[id(o)], key_of[id(nx)]))
                if nx.tie_prev is not o:
                    bad_links.append("tie_prev of %s is not %s" % (nx.id, o.id))
            if getattr(o, "tie_prev", None) is not None:
                pv = o.tie_prev
                if id(pv) not in key_of or pv.tie_next is not o:
                    bad_links.append("tie_next of the tie_prev of %s is not it" % (o.id,))
        p["ties"] = sorted(ties)
        p["bad_links"] = bad_links
        p["measures"] = sorted(_quarter(part, int(m.start.t)) for m in part.iter_all(S.Measure))
        p["ts"] = sorted((_quarter(part, int(o.start.t)), o.beats, o.beat_type) for o in part.iter_all(S.TimeSignature))
        p["ks"] = sorted(((_quarter(part, int(o.start.t)), o.fifths, o.mode) for o in part.iter_all(S.KeySignature)),
                         key=lambda x: (x[0], x[1], x[2] or ""))
        p["clefs"] = sorted((_quarter(part, int(o.start.t)), o.staff, o.sign, o.line) for o in part.iter_all(S.Clef))
        p["sounding"] = sounding(p["notes"], p["ties"])
        parts.append(p)
    return {"parts": parts}


def in_force(table, q, key=None):
    """last entry of a sorted [(q0, ...)] table with q0 <= q (restricted to entries matching key)"""
    cur = None
    for row in table:
        if key is not None and not key(row):
            continue
        if row[0] <= q:
            cur = row[1:]
    return cur
