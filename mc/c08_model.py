"""C08 helpers: abstract alignment case -> real objects, exact reference values, observation of the
loaded tuple, and a small independent writer/classifier for match files (used for the duplicate-id
and historical-version sub-spaces).

Case description (JSON-able):
  score: {"divs": D,
          "bars": [{"len": L, "ts": [beats, beat_type]|None, "ks": [fifths, mode]|None}, ...],
          "notes": [{"id", "s", "e", "step", "alter", "oct", "voice", "staff",
                     "art": [...], "tie": next id|None, "grace": bool, "fing": int|None}, ...]}
     times are absolute timeline positions in divs, bar 0 starts at 0; a first bar shorter than its
     time signature is a pickup.
  perf:  {"notes": [[id, pitch, on, off, velocity], ...]   on/off: ticks (int) or ["s", "num/den"] seconds
          "ctrl":  [[number, tick, value], ...]}
  ppq, mpq
  align: [[label, score_id|None, perf_id|None, type|None], ...]
  opts:  {"unfolded": bool, "api": "part"|"score"|"matchfile", "via": "built"|"match"|"midi"}
  perf may also hold "src": [ppq, mpq, "both"|"on"] (tick fields of the notes, counted in a source clock) and
  "decl": [ppq, mpq] (clock declared by the PerformedPart object); see build_performed_part
"""
from fractions import Fraction as F

from mc.ir import build_part, midi_pitch

SUPPORTED_ART = ("staccato", "accent")


# ---------------------------------------------------------------------------------------------
# reference layout of the score


def bar_table(sc):
    """per bar: start, end (divs), ts in force, ks in force (or None), nominal length"""
    D = sc["divs"]
    out = []
    t = 0
    ts = None
    ks = None
    for b in sc["bars"]:
        if b.get("ts") is not None:
            ts = tuple(b["ts"])
        if b.get("ks") is not None:
            ks = tuple(b["ks"])
        nominal = F(ts[0] * 4 * D, ts[1]) if ts else None
        out.append(dict(start=t, end=t + b["len"], ts=ts, ks=ks, nominal=nominal))
        t += b["len"]
    return out


def is_pickup(sc):
    bt = bar_table(sc)
    return bt[0]["nominal"] is not None and bt[0]["end"] - bt[0]["start"] < bt[0]["nominal"]


def beat_of(sc, t):
    """reference beat position of timeline time t (Fraction); beat 0 = start of the first complete
    bar (partitura convention: a first bar shorter than its signature is an anacrusis)"""
    D = sc["divs"]
    bt = bar_table(sc)
    acc = F(0)
    res = None
    for b in bt:
        unit = F(b["ts"][1], 4 * D)  # beats per div
        if t <= b["end"] or b is bt[-1]:
            res = acc + (t - b["start"]) * unit
            break
        acc += (b["end"] - b["start"]) * unit
    if is_pickup(sc):
        res -= (bt[0]["end"] - bt[0]["start"]) * F(bt[0]["ts"][1], 4 * D)
    return res


def chains(sc):
    """tie chains: list of (head note dict, total duration in divs, [member ids])"""
    by_id = {n["id"]: n for n in sc["notes"]}
    has_prev = {n["tie"] for n in sc["notes"] if n.get("tie")}
    out = []
    for n in sc["notes"]:
        if n["id"] in has_prev:
            continue
        tot = 0
        ids = []
        cur = n
        while True:
            tot += cur["e"] - cur["s"]
            ids.append(cur["id"])
            if not cur.get("tie"):
                break
            cur = by_id[cur["tie"]]
        out.append((n, tot, ids))
    return out


def part_spec(sc):
    """spec for mc.ir.build_part"""
    objs = []
    for i, b in enumerate(bar_table(sc)):
        raw = sc["bars"][i]
        objs.append(dict(k="measure", s=b["start"], e=b["end"], number=i + 1))
        if raw.get("ts") is not None:
            objs.append(dict(k="ts", s=b["start"], beats=raw["ts"][0], beat_type=raw["ts"][1]))
        if raw.get("ks") is not None:
            objs.append(dict(k="ks", s=b["start"], fifths=raw["ks"][0], mode=raw["ks"][1]))
    for n in sc["notes"]:
        o = dict(k="grace" if n.get("grace") else "note", s=n["s"], e=n["e"], id=n["id"], step=n["step"],
                 alter=n.get("alter"), oct=n["oct"], voice=n.get("voice"), staff=n.get("staff"))
        if n.get("art"):
            o["art"] = list(n["art"])
        if n.get("tie"):
            o["tie"] = n["tie"]
        if n.get("fing") is not None:
            o["fing"] = n["fing"]
        if n.get("grace"):
            o["gtype"] = "acciaccatura"
        objs.append(o)
    return dict(id="P1", name="piece", divs=[[0, sc["divs"]]], objs=objs)


def build_score_part(sc):
    return build_part(part_spec(sc))


# ---------------------------------------------------------------------------------------------
# performance


def sec_of(x, ppq, mpq):
    """exact seconds of a performance time given as tick (int) or ["s", "a/b"]"""
    if isinstance(x, (list, tuple)):
        a, b = x[1].split("/")
        return F(int(a), int(b))
    return F(mpq * x, 10 ** 6 * ppq)


def tick_candidates(x, ppq, mpq):
    """set of acceptable tick values for a time (exact half ticks: both neighbours)"""
    if not isinstance(x, (list, tuple)):
        return {int(x)}
    v = sec_of(x, ppq, mpq) * 10 ** 6 * ppq / mpq
    lo = v.numerator // v.denominator
    fr = v - lo
    if fr == F(1, 2):
        return {lo, lo + 1}
    return {lo + (1 if fr > F(1, 2) else 0)}


def src_tick(x, ppq_s, mpq_s):
    """tick count of the exact time x in the source clock (ppq_s, mpq_s); the generator only emits times on that grid"""
    v = sec_of(x, ppq_s, mpq_s) * 10 ** 6 * ppq_s / mpq_s
    if v.denominator != 1:
        raise ValueError("time %r is not on the tick grid of the source clock %r" % (x, (ppq_s, mpq_s)))
    return int(v)


def build_performed_part(case, plain=False):
    """the performed part of a case.

    perf["src"] = [ppq_s, mpq_s, fields] (optional): the notes also carry their times as tick counts of the source
    clock (fields "both": note_on_tick and note_off_tick, "on": only note_on_tick), the way parts read from a MIDI or
    a match file do; the seconds stay the reference.  perf["decl"] = [ppq, mpq] (optional): clock the PerformedPart
    object declares (default: the requested clock of the case).  plain=True: no tick fields (used for the first leg of
    a pipeline through a real loader, which then produces them)."""
    from partitura.performance import PerformedPart

    ppq, mpq = case["ppq"], case["mpq"]
    pf = case["perf"]
    src = None if plain else pf.get("src")
    dppq, dmpq = pf.get("decl") or [ppq, mpq]
    notes = []
    for nid, pitch, on, off, vel in pf["notes"]:
        d = dict(id=nid, midi_pitch=pitch, note_on=float(sec_of(on, ppq, mpq)),
                 note_off=float(sec_of(off, ppq, mpq)), velocity=vel, track=0, channel=1)
        if src:
            d["note_on_tick"] = src_tick(on, src[0], src[1])
            if src[2] == "both":
                d["note_off_tick"] = src_tick(off, src[0], src[1])
        notes.append(d)
    ctrl = [dict(number=num, time=float(sec_of(t, ppq, mpq)), value=val)
            for num, t, val in pf.get("ctrl", [])]
    return PerformedPart(notes, id="PP", part_name="pp", controls=ctrl, ppq=dppq, mpq=dmpq)


def expected_pid(pid):
    """documented id normalisation of performed notes in match files (format_pnote_id)"""
    return pid if str(pid).startswith("n") else "n" + str(pid)


def alignment_dicts(case):
    out = []
    for label, sid, pid, typ in case["align"]:
        if label == "match":
            out.append(dict(label="match", score_id=sid, performance_id=pid))
        elif label == "deletion":
            out.append(dict(label="deletion", score_id=sid))
        elif label == "insertion":
            out.append(dict(label="insertion", performance_id=pid))
        elif label == "ornament":
            out.append(dict(label="ornament", score_id=sid, performance_id=pid, type=typ))
    return out


# ---------------------------------------------------------------------------------------------
# independent classification of match-file text


import re

_RE_SNOTE = re.compile(r"^snote\(([^,]+),")
_RE_NOTE = re.compile(r"note\(([^,]+),")


_RE_PROP = re.compile(r"^scoreprop\((keySignature|timeSignature),(.+),(-?\d+):(-?\d+),([^,]+),([^,]+)\)\.$")
_RE_SNOTE_POS = re.compile(r"^snote\(([^,]+),\[[^\]]*\],[^,]+,(-?\d+):(-?\d+),")


def scoreprop_lines(text):
    """independent reading of the signature lines of a 1.0.0 file: [(attribute, value, measure, beat, offset, time)]
    and the measure number used by the snote line of every score id"""
    props = []
    snote_measure = {}
    for ln in text.splitlines():
        m = _RE_PROP.match(ln.strip())
        if m:
            props.append((m.group(1), m.group(2), int(m.group(3)), int(m.group(4)), m.group(5), float(m.group(6))))
        m = _RE_SNOTE_POS.match(ln.strip())
        if m:
            snote_measure[m.group(1)] = int(m.group(2))
    return props, snote_measure


def classify_lines(text):
    """independent classification of the lines of a match file (any version): returns a list of
    (kind, score_id, perf_id) for note lines and counts of pedal lines"""
    notes = []
    sustain = soft = 0
    for ln in text.splitlines():
        ln = ln.strip()
        if not ln:
            continue
        if ln.startswith("snote("):
            sid = _RE_SNOTE.match(ln).group(1)
            if ln.endswith("-deletion."):
                notes.append(("deletion", sid, None))
            elif "-note(" in ln:
                pid = _RE_NOTE.search(ln[ln.index(")-note(") + 2:]).group(1)
                notes.append(("match", sid, pid))
            else:
                notes.append(("other-snote", sid, None))
        elif ln.startswith("insertion-note("):
            notes.append(("insertion", None, _RE_NOTE.search(ln).group(1)))
        elif ln.startswith("ornament(") or ln.startswith("trill("):
            anchor = ln[ln.index("(") + 1:].split(")", 1)[0].split(",", 1)[0]
            notes.append(("ornament", anchor, _RE_NOTE.search(ln).group(1)))
        elif ln.startswith("sustain("):
            sustain += 1
        elif ln.startswith("soft("):
            soft += 1
    return notes, sustain, soft


# ---------------------------------------------------------------------------------------------
# independent writer of small match files in every historical dialect
#
# content = {"version": "1.0.0"|"0.5.0"|"0.4.0"|"0.3.0"|"0.2.0"|"0.1.0"|"none" (no version line = 0.1.0),
#            "ppq", "mpq", "ts": [beats, beat_type], "ks": [fifths, mode],
#            "snotes": {sid: {"step","alter","oct","voice","staff","i": index of the quarter it occupies}},
#            "pnotes": {pid: {"step","alter","oct","on","off","vel"}},
#            "lines": [[kind, sid|None, pid|None, variant]], "pedal": [[kind, tick, value]]}
# score note i lasts one quarter and starts i quarters after the first barline.

_MAJ = ['Cb', 'Gb', 'Db', 'Ab', 'Eb', 'Bb', 'F', 'C', 'G', 'D', 'A', 'E', 'B', 'F#', 'C#']
_MIN = ['Ab', 'Eb', 'Bb', 'F', 'C', 'G', 'D', 'A', 'E', 'B', 'F#', 'C#', 'G#', 'D#', 'A#']
_ACC = {None: "n", 0: "n", 1: "#", 2: "x", -1: "b", -2: "bb"}
DELETION_KINDS = ("deletion", "trailing_score", "no_played")
INSERTION_KINDS = ("insertion", "hammer_bounce", "trailing_played")


def _vtuple(v):
    return (0, 1, 0) if v == "none" else tuple(int(x) for x in v.split("."))


def render_match(content):
    v = _vtuple(content["version"])
    v1 = v >= (1, 0, 0)
    ts = content["ts"]
    fifths, mode = content["ks"]
    out = []
    if content["version"] != "none":
        out.append("info(matchFileVersion,%s)." % (content["version"] if v1 else "%d.%d" % (v[1], v[2])))
    out.append("info(midiClockUnits,%d)." % content["ppq"])
    out.append("info(midiClockRate,%d)." % content["mpq"])
    name = (_MIN if mode == "minor" else _MAJ)[fifths + 7]
    if v1:
        out.append("scoreprop(keySignature,%s%s,1:1,0,0.0000)." % (name, "m" if mode == "minor" else ""))
        out.append("scoreprop(timeSignature,%d/%d,1:1,0,0.0000)." % tuple(ts))
    elif v >= (0, 3, 0):
        out.append("info(keySignature,[%s %s])." % (name, "min" if mode == "minor" else "Maj"))
        out.append("info(timeSignature,%s)." % (("[%d/%d]" if v >= (0, 4, 0) else "%d/%d") % tuple(ts)))
    else:
        acc = name[1:] if len(name) > 1 else "n"
        out.append("info(keySignature,[%s%s,%s])." % (name[0].lower(), acc, mode or "major"))
        out.append("info(timeSignature,%d/%d)." % tuple(ts))

    def flt(x):
        if v1:
            return "%.4f" % x
        if v < (0, 3, 0):
            return "%.5f" % x
        return repr(float(x))

    def frac(num, den):
        if num == 0:
            return "0/1" if v < (0, 3, 0) else "0"
        return "%d/%d" % (num, den)

    def snote(sid, variant):
        n = content["snotes"][sid]
        i = n["i"]
        unit = F(ts[1], 4)  # beats per quarter
        bar = 1 + (i * unit) // ts[0]
        inbar = i * unit - (bar - 1) * ts[0]
        beat = int(inbar)
        rest_whole = (inbar - beat) / ts[1]
        step = n["step"].upper() if (v1 or v >= (0, 4, 0)) else n["step"].lower()
        attrs = ["v%d" % n["voice"], "staff%d" % n["staff"]] + (["accent"] if variant else [])
        return "snote(%s,[%s,%s],%d,%d:%d,%s,%s,%s,%s,[%s])" % (
            sid, step, _ACC[n.get("alter")], n["oct"], bar, beat + 1, frac(rest_whole.numerator, rest_whole.denominator),
            frac(1, 4), flt(i * unit), flt((i + 1) * unit), ",".join(attrs))

    def pnote(pid, variant):
        p = content["pnotes"][pid]
        vel = p["vel"] + (1 if variant else 0)
        if v1:
            return "note(%s,%d,%d,%d,%d,1,0)." % (pid, midi_pitch(p["step"], p.get("alter"), p["oct"]), p["on"], p["off"], vel)
        step = p["step"].upper() if v >= (0, 4, 0) else p["step"].lower()
        if v >= (0, 3, 0):
            return "note(%s,[%s,%s],%d,%d,%d,%d,%d)." % (pid, step, _ACC[p.get("alter")], p["oct"], p["on"], p["off"], p["off"] + 5, vel)
        return "note(%s,[%s,%s],%d,%.2f,%.2f,%d)." % (pid, step, _ACC[p.get("alter")], p["oct"], p["on"], p["off"], vel)

    for kind, sid, pid, variant in content["lines"]:
        if kind == "match":
            out.append("%s-%s" % (snote(sid, variant), pnote(pid, variant)))
        elif kind == "deletion":
            out.append("%s-deletion." % snote(sid, variant))
        elif kind == "trailing_score":
            out.append("%s-trailing_score_note." % snote(sid, variant))
        elif kind == "no_played":
            out.append("%s-no_played_note." % snote(sid, variant))
        elif kind == "insertion":
            out.append("insertion-%s" % pnote(pid, variant))
        elif kind == "hammer_bounce":
            out.append("hammer_bounce-%s" % pnote(pid, variant))
        elif kind == "trailing_played":
            out.append("trailing_played_note-%s" % pnote(pid, variant))
        elif kind == "ornament":
            out.append(("ornament(%s,[trill])-%s" if v1 else "trill(%s)-%s") % (sid, pnote(pid, variant)))
        else:
            raise ValueError(kind)
    for kind, t, val in content.get("pedal", []):
        out.append("%s(%d,%d)." % (kind, t, val))
    return "\n".join(out) + "\n"


def documented_resolution(lines):
    """validate_match_ids as documented: deletions whose score id occurs in several score-note lines are dropped,
    then insertions whose performance id occurs in several performed-note lines are dropped; matches are kept.
    `lines` = [[kind, sid, pid, variant]] without textually identical repetitions. Returns the kept lines."""
    def is_del(k):
        return k in DELETION_KINDS

    def is_ins(k):
        return k in INSERTION_KINDS

    from collections import Counter

    sc = Counter(l[1] for l in lines if l[0] == "match" or is_del(l[0]))
    kept = [l for l in lines if not (is_del(l[0]) and sc[l[1]] > 1)]
    pc = Counter(l[2] for l in kept if l[0] == "match" or is_ins(l[0]) or l[0] == "ornament")
    kept = [l for l in kept if not (is_ins(l[0]) and pc[l[2]] > 1)]
    return kept
