"""Canonical *musical content* of a part/score: the attributes the property statements list,
normalised for representational freedom (alter None == 0, dots missing == 0, empty == None).

canon_part(part) -> dict of sorted lists of plain tuples; canon_score(score) -> nested structure.
Used for round-trip equality (C03), "equal part" (C09), and as a readable projection elsewhere.
Reads instance attributes and the point array only (no caching partitura calls).
"""
from .fingerprint import part_objects


def _t(tp):
    return None if tp is None else int(tp.t)


def _nid(n):
    return None if n is None else getattr(n, "id", None)


def _sym(o):
    sd = getattr(o, "_sym_dur", None)
    if not sd:
        return None
    return (sd.get("type"), sd.get("dots") or 0, sd.get("actual_notes"), sd.get("normal_notes"))


def _seq(x):
    if not x:
        return ()
    return tuple(sorted(str(v) for v in x))


def _fing(o):
    tech = getattr(o, "technical", None) or []
    out = []
    for t in tech:
        if type(t).__name__ == "Fingering":
            out.append(getattr(t, "fingering", None))
    return tuple(out)


def canon_part(part, include=None, with_points=False):
    import partitura.score as S

    objs = part_objects(part)
    out = {
        "part": (part.id, part.part_name or None, part.part_abbreviation or None),
        "divs": tuple((int(a), int(b)) for a, b in zip(part._quarter_times, part._quarter_durations)),
    }
    # drop redundant division entries (same function)
    dv = []
    for a, b in out["divs"]:
        if dv and dv[-1][1] == b:
            continue
        dv.append((a, b))
    out["divs"] = tuple(dv)
    groups = {k: [] for k in (
        "notes", "measures", "ts", "ks", "clefs", "slurs", "tuplets", "directions", "words", "tempo",
        "repeats", "endings", "nav", "fermatas", "barlines", "pages", "other")}
    for o in objs:
        s, e = _t(o.start), _t(o.end)
        if isinstance(o, S.GenericNote):
            kind = type(o).__name__
            pitch = None
            if isinstance(o, S.Note):
                pitch = (o.step, o.alter or 0, o.octave)
            elif isinstance(o, S.UnpitchedNote):
                pitch = (o.step, None, o.octave)
            groups["notes"].append((
                s, e, kind, o.id, pitch, o.voice, o.staff, _sym(o),
                _nid(o.tie_prev), _nid(o.tie_next), _seq(o.articulations), _fing(o),
                o.stem_direction, o.fermata is not None,
                getattr(o, "grace_type", None), _nid(getattr(o, "grace_prev", None)), _nid(getattr(o, "grace_next", None)),
                len(o.slur_starts),
                len(o.slur_stops), len(o.tuplet_starts), len(o.tuplet_stops),
            ))
        elif isinstance(o, S.Measure):
            groups["measures"].append((s, e, o.number, o.name))
        elif isinstance(o, S.TimeSignature):
            groups["ts"].append((s, o.beats, o.beat_type))
        elif isinstance(o, S.KeySignature):
            groups["ks"].append((s, o.fifths, o.mode))
        elif isinstance(o, S.Clef):
            groups["clefs"].append((s, o.staff, o.sign, o.line, o.octave_change or 0))
        elif isinstance(o, S.Slur):
            groups["slurs"].append((s, e, _nid(o.start_note), _nid(o.end_note)))
        elif isinstance(o, S.Tuplet):
            groups["tuplets"].append((s, e, _nid(o.start_note), _nid(o.end_note), o.actual_notes, o.normal_notes))
        elif isinstance(o, S.Direction):
            groups["directions"].append((s, e, type(o).__name__, o.text, o.staff, getattr(o, "wedge", None)))
        elif isinstance(o, S.Words):
            groups["words"].append((s, e, o.text, o.staff))
        elif isinstance(o, S.Tempo):
            groups["tempo"].append((s, e, float(o.bpm) if o.bpm is not None else None, o.unit))
        elif isinstance(o, S.Repeat):
            groups["repeats"].append((s, e))
        elif isinstance(o, S.Ending):
            groups["endings"].append((s, e, str(o.number)))
        elif isinstance(o, (S.Fine, S.DaCapo, S.Segno, S.DalSegno, S.Coda, S.ToCoda)):
            groups["nav"].append((s, type(o).__name__))
        elif isinstance(o, S.Fermata):
            groups["fermatas"].append((s, _nid(o.ref) if isinstance(o.ref, S.GenericNote) else (None if o.ref is None else str(o.ref))))
        elif isinstance(o, S.Barline):
            groups["barlines"].append((s, o.style))
        elif isinstance(o, (S.Page, S.System)):
            groups["pages"].append((s, e, type(o).__name__, o.number))
        else:
            groups["other"].append((s, e, type(o).__name__))
    for k, v in groups.items():
        if include is None or k in include:
            out[k] = tuple(sorted(v, key=repr))
    if with_points:
        out["points"] = tuple(int(tp.t) for tp in part._points)
    return out


def canon_structure(items):
    import partitura.score as S

    out = []
    for x in items:
        if isinstance(x, S.PartGroup):
            out.append(("group", x.group_symbol, x.group_name, x.number, canon_structure(x.children)))
        else:
            out.append(("part", x.id))
    return tuple(out)


def canon_score(score, include=None):
    return {
        "structure": canon_structure(score.part_structure),
        "parts": tuple(canon_part(p, include) for p in score.parts),
    }


def diff_canon(a, b, limit=8):
    """list of human-readable differences between two canon dicts/tuples"""
    out = []

    def rec(x, y, path):
        if len(out) >= limit:
            return
        if isinstance(x, dict) and isinstance(y, dict):
            for k in sorted(set(x) | set(y)):
                if x.get(k) != y.get(k):
                    rec(x.get(k), y.get(k), path + "." + str(k))
        elif isinstance(x, tuple) and isinstance(y, tuple) and x and y and isinstance(x[0], (tuple, dict)):
            sx, sy = set(map(repr, x)), set(map(repr, y))
            if all(isinstance(i, tuple) for i in x + y) and (sx != sy or len(x) != len(y)):
                only_x = [i for i in x if repr(i) not in sy]
                only_y = [i for i in y if repr(i) not in sx]
                out.append("%s: only in first %r | only in second %r" % (path, only_x[:3], only_y[:3]))
            else:
                for i, (p, q) in enumerate(zip(x, y)):
                    if p != q:
                        rec(p, q, "%s[%d]" % (path, i))
                if len(x) != len(y):
                    out.append("%s: length %d != %d" % (path, len(x), len(y)))
        elif x != y:
            out.append("%s: %r != %r" % (path, x, y))

    rec(a, b, "")
    return out
