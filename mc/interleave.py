"""Stateless enumeration of all interleavings of k cooperative clients.

A client is a generator function; every `yield` is a scheduling point.  `all_schedules` enumerates
every sequence of client choices (each execution starts from fresh clients, built by `make()`),
optionally bounded by the number of preemptions (switching away from a client that could continue).
"""


def run_schedule(make, schedule):
    """make() -> list of generator objects. schedule: list of client indices. Returns
    (finished_flags, steps_taken). A choice of a finished client is a harness error."""
    clients = make()
    done = [False] * len(clients)
    for c in schedule:
        if done[c]:
            raise RuntimeError("schedule picks finished client %d" % c)
        try:
            next(clients[c])
        except StopIteration:
            done[c] = True
    return done


def all_schedules(make, max_preemptions=None):
    """Yield every complete schedule (list of client indices). DFS with re-execution."""
    n = len(make())
    out = []

    def enabled_after(prefix):
        clients = make()
        done = [False] * n
        for c in prefix:
            try:
                next(clients[c])
            except StopIteration:
                done[c] = True
        return [i for i in range(n) if not done[i]]

    def rec(prefix, preempt):
        en = enabled_after(prefix)
        if not en:
            out.append(list(prefix))
            return
        last = prefix[-1] if prefix else None
        for c in en:
            cost = preempt
            if last is not None and c != last and last in en:
                cost += 1
            if max_preemptions is not None and cost > max_preemptions:
                continue
            prefix.append(c)
            rec(prefix, cost)
            prefix.pop()

    rec([], 0)
    return out
