"""Reference model for C05 (the note array is a faithful table of the score).

Pure stdlib, exact arithmetic.  Nothing here imports partitura.  Everything is computed from the part
spec of mc/ir.py (the description from which the real Part is built through the public API).

Readings fixed here (each one is the implementation's documented behaviour, see checks/c05.py
ASSUMPTIONS):
  * quarter / beat values are measured from the first time point (always 0 in the generated parts);
    when a measure and a time signature start at the first point and the measure is shorter than the
    signature says (a pickup), zero is at the end of that measure;
  * before the first time signature a beat is a quarter;
  * `None` where the score does not state a value (missing voice / staff, no signature in force at
    the onset, fewer than two measures): the oracle then accepts every value.
"""
from fractions import Fraction
from math import gcd

from mc.ir import midi_pitch, qdur_at, quarters_between

MUSICAL_BEATS = {6: 2, 9: 3, 12: 4}
MODE_INT = {"minor": -1, -1: -1, "major": 1, None: 1, "none": 1, 1: 1}


def lcm(a, b):
    return a * b // gcd(a, b)


class PartRef(object):
    def __init__(self, spec, musical=None):
        """musical: None (notated beats) or a dict {"6/8": n} given to Part.use_musical_beat"""
        self.spec = spec
        self.musical = musical
        self.divs = [list(x) for x in spec.get("divs", [[0, 1]])]
        objs = spec.get("objs", [])
        self.notes = [o for o in objs if o["k"] in ("note", "grace")]
        self.rests = [o for o in objs if o["k"] == "rest"]
        self.measures = sorted((o["s"], o["e"]) for o in objs if o["k"] == "measure")
        self.ts = sorted(((o["s"], i, o["beats"], o["beat_type"], o.get("mus")) for i, o in enumerate(objs) if o["k"] == "ts"))
        self.ks = sorted(((o["s"], i, o["fifths"], o.get("mode")) for i, o in enumerate(objs) if o["k"] == "ks"))
        times = [o[x] for o in objs for x in ("s", "e") if o.get(x) is not None]
        self.first = min(times) if times else None
        self.last = max(times) if times else None
        self._shift = None

    # -- time maps ---------------------------------------------------------------------------------
    def _bt_at(self, a):
        """beat_type in force on the stretch starting at a (None before the first time signature)"""
        cur = None
        for s, _, b, bt, _m in self.ts:
            if s <= a:
                cur = bt
        return cur

    def _mus_of(self, b, bt, mus):
        if self.musical is not None:
            key = "%d/%d" % (b, bt)
            if key in self.musical:
                return self.musical[key]
        return mus if mus is not None else MUSICAL_BEATS.get(b, b)

    def _factor(self, a):
        """beats per quarter on the stretch starting at a"""
        cur = None
        for s, _, b, bt, mus in self.ts:
            if s <= a:
                cur = (b, bt, mus)
        if cur is None:
            return Fraction(1)
        b, bt, mus = cur
        f = Fraction(bt, 4)
        if self.musical is not None:
            f *= Fraction(self._mus_of(b, bt, mus), b)
        return f

    def raw(self, t, unit):
        """exact quarters ('q') or beats ('b') between the first point and t (no pickup shift)"""
        t0 = self.first
        if unit == "q":
            return quarters_between(self.divs, t0, t)
        cuts = {t0, t}
        cuts |= {tt for tt, _ in self.divs if t0 < tt < t}
        cuts |= {s for s, _, _, _, _ in self.ts if t0 < s < t}
        cuts = sorted(cuts)
        tot = Fraction(0)
        for a, b in zip(cuts, cuts[1:]):
            tot += self._factor(a) * Fraction(b - a, qdur_at(self.divs, a))
        return tot

    def pickup(self):
        """(end of the pickup measure) or None"""
        m = [x for x in self.measures if x[0] == self.first]
        if not m:
            return None
        ts0 = [x for x in self.ts if x[0] == self.first]
        if not ts0:
            return None
        return m[0][1], ts0[0]

    def shift(self, unit):
        pk = self.pickup()
        if pk is None:
            return Fraction(0)
        end, (_, _, beats, bt, _m) = pk
        actual = self.raw(end, unit)
        if unit == "q":
            normal = Fraction(beats * 4, bt)
        elif self.musical is not None:
            normal = Fraction(self._mus_of(beats, bt, _m))
        else:
            normal = Fraction(beats)
        return actual if actual < normal else Fraction(0)

    def value(self, t, unit):
        return self.raw(t, unit) - self.shift(unit)

    # -- signatures --------------------------------------------------------------------------------
    def ts_at(self, t):
        """(beats, beat_type, musical_beats) stated at t, or None if no signature has started yet.
        Two signatures at the same time: not generated."""
        cur = None
        for s, _, b, bt, mus in self.ts:
            if s <= t:
                cur = (b, bt, self._mus_of(b, bt, mus))
        return cur

    def ks_at(self, t):
        cur = None
        for s, _, f, mode in self.ks:
            if s <= t:
                cur = (f, MODE_INT[mode])
        return cur

    def metrical_at(self, t):
        """list of accepted (is_downbeat, rel_onset_div, tot_measure_div) or None (nothing stated:
        fewer than two measures, or t outside every measure)"""
        ms = self.measures
        if len(ms) < 2:
            return None
        idx = None
        for i, (s, e) in enumerate(ms):
            if s <= t < e:
                idx = i
        if idx is None:
            return None
        s, e = ms[idx]
        out = [(1 if t == s else 0, t - s, e - s)]
        if idx == 0:
            # a short first measure is read as a pickup: positions count from the virtual start of a
            # complete measure (nominal length from the signature in force at 0, 4/4 when none)
            sig = self.ts_at(0) or (4, 4, 4)
            bt = self._bt_at(0)
            per_beat = Fraction(qdur_at(self.divs, 0) * 4, bt) if bt is not None else Fraction(qdur_at(self.divs, 0))
            nominal = sig[0] * per_beat
            if e - s < nominal:
                if nominal.denominator != 1:
                    return None
                vs = e - int(nominal)
                out.append((1 if t == vs else 0, t - vs, e - vs))
        return out

    # -- rows --------------------------------------------------------------------------------------
    def chains(self):
        by_id = {o["id"]: o for o in self.notes}
        has_prev = {o["tie"] for o in self.notes if o.get("tie") is not None}
        out = []
        for o in self.notes:
            if o["id"] in has_prev:
                continue
            ch = [o]
            while ch[-1].get("tie") is not None:
                ch.append(by_id[ch[-1]["tie"]])
            out.append(ch)
        return out

    def _time_cols(self, on, off):
        return dict(
            onset_div=on, duration_div=off - on,
            onset_quarter=self.value(on, "q"), duration_quarter=self.value(off, "q") - self.value(on, "q"),
            onset_beat=self.value(on, "b"), duration_beat=self.value(off, "b") - self.value(on, "b"),
        )

    def _ctx_cols(self, on):
        return dict(ks=self.ks_at(on), ts=self.ts_at(on), metrical=self.metrical_at(on),
                    divs_pq=qdur_at(self.divs, on), single_divs=len(self.divs) == 1)

    def note_rows(self):
        rows = []
        for ch in self.chains():
            h = ch[0]
            on = h["s"]
            off = on + sum(x["e"] - x["s"] for x in ch)
            r = self._time_cols(on, off)
            r.update(self._ctx_cols(on))
            r.update(id=h["id"], pitch=midi_pitch(h["step"], h.get("alter"), h["oct"]), voice=h.get("voice"),
                     step=h["step"].upper(), alter=h.get("alter") or 0, octave=h["oct"],
                     is_grace=1 if h["k"] == "grace" else 0,
                     grace_type=h.get("gtype", "grace") if h["k"] == "grace" else "",
                     staff=h.get("staff"))
            rows.append(r)
        return rows

    def rest_rows(self):
        rows = []
        for h in self.rests:
            r = self._time_cols(h["s"], h["e"])
            r.update(self._ctx_cols(h["s"]))
            r.update(id=h["id"], pitch=0, voice=h.get("voice"), is_grace=0, grace_type="", staff=h.get("staff"))
            rows.append(r)
        return rows


def flat_parts(items):
    out = []
    for x in items:
        if "group" in x:
            out.extend(flat_parts(x["children"]))
        else:
            out.append(x)
    return out


def nested_ids(items, unique):
    """ids as produced by prefixing at every level of a list that contains groups: list of
    (part spec, prefix)"""
    out = []
    for i, x in enumerate(items):
        pre = "P%02d_" % i if (unique and len(items) > 1) else ""
        if "group" in x:
            for p, inner in nested_ids(x["children"], unique):
                out.append((p, pre + inner))
        else:
            out.append((x, pre))
    return out


def list_rows(items, unique, kind="note"):
    """Expected rows of a list of parts/groups.  Returns (rows, lcm); every row has `id_readings` (the id under
    each accepted reading of the prefix rule), onset/duration/divs_pq rescaled to the least common multiple of the divisions of the parts
    that contribute rows, `scale` (its multiplier, for the columns the statement leaves open)."""
    nested = nested_ids(items, unique)
    flat = flat_parts(items)
    per = []
    L = 1
    for p in flat:
        ref = PartRef(p)
        rows = ref.note_rows() if kind == "note" else ref.rest_rows()
        per.append(rows)
        if rows:
            L = lcm(L, p["divs"][0][1])
    out = []
    for fi, (p, rows) in enumerate(zip(flat, per)):
        m = L // p["divs"][0][1] if rows else 1
        pre_flat = "P%02d_" % fi if (unique and len(flat) > 1) else ""
        pre_nest = nested[fi][1]
        for r in rows:
            r = dict(r)
            # two readings of "part-prefixed": the prefix of every enclosing list level (what the
            # recursion produces), or the index in the flat list of parts
            r["id_readings"] = [pre_nest + r["id"], pre_flat + r["id"]]
            r["scale"] = m
            r["onset_div"] *= m
            r["duration_div"] *= m
            r["divs_pq"] *= m
            r["part"] = fi
            out.append(r)
    return out, L
