"""Reference models and input builders for check C17 (spelling, voices, key, MIDI importer).

Everything here is independent of the functions under test: plain Python / Fractions, numpy only
for building the structured input arrays, mido (trusted third party) for writing MIDI files.
"""
import itertools
import math
from fractions import Fraction

import numpy as np

# --------------------------------------------------------------------------------------------
# pitch names

STEP_PC = {"C": 0, "D": 2, "E": 4, "F": 5, "G": 7, "A": 9, "B": 11}


def sounding_pitch(step, alter, octave):
    """MIDI pitch sounded by a pitch name (C4 = 60)."""
    return 12 * (octave + 1) + STEP_PC[step] + alter


# --------------------------------------------------------------------------------------------
# key names (liberal reading: the 15 major and 15 minor key-signature names)

_FIFTHS_ROOTS = ["Cb", "Gb", "Db", "Ab", "Eb", "Bb", "F", "C", "G", "D", "A", "E", "B", "F#", "C#"]
VALID_KEY_NAMES = {}
for _i, _root in enumerate(_FIFTHS_ROOTS):
    _pc = (STEP_PC[_root[0]] + {"": 0, "#": 1, "b": -1}[_root[1:]]) % 12
    VALID_KEY_NAMES[_root] = (_pc, "major")
    # relative minor roots: a minor third below, spelled on the line of fifths (+3 fifths)
_MINOR_ROOTS = ["Ab", "Eb", "Bb", "F", "C", "G", "D", "A", "E", "B", "F#", "C#", "G#", "D#", "A#"]
for _root in _MINOR_ROOTS:
    _pc = (STEP_PC[_root[0]] + {"": 0, "#": 1, "b": -1}[_root[1:]]) % 12
    VALID_KEY_NAMES[_root + "m"] = (_pc, "minor")


def parse_key(name):
    """(tonic pitch class, mode) of a valid key name, else None."""
    if not isinstance(name, str):
        return None
    return VALID_KEY_NAMES.get(name)


def fifths_mode_to_tonic(fifths, mode):
    if mode in ("minor",):
        return (7 * fifths + 9) % 12
    return (7 * fifths) % 12


PROFILE_TABLES = {
    # name accepted by estimate_key AND ks_kid -> (major table, minor table) in partitura.utils.globals
    "krumhansl_kessler": ("key_prof_maj_kk", "key_prof_min_kk"),
    "temperley": ("key_prof_maj_cbms", "key_prof_min_cbms"),
    "kostka_payne": ("key_prof_maj_kp", "key_prof_min_kp"),
    "kp": ("key_prof_maj_kp", "key_prof_min_kp"),
    None: ("key_prof_maj_kk", "key_prof_min_kk"),  # default
}


def profile_fractions(name):
    """The two 12-entry profile tables of a profile set as exact Fractions (data read from
    partitura.utils.globals; scale is irrelevant for a correlation)."""
    import partitura.utils.globals as G

    a, b = PROFILE_TABLES[name]
    return ([Fraction(float(x)) for x in getattr(G, a)], [Fraction(float(x)) for x in getattr(G, b)])


def key_model(pitches, weights, profiles):
    """Krumhansl-Schmuckler reference: correlation of the duration-weighted pitch-class
    distribution with the 24 rotated profiles, in exact arithmetic up to the final square root.

    Returns (best, gap, ranking) with best = (tonic_pc, mode) or None when the distribution is
    constant (correlation undefined); gap = best correlation minus the second best.
    """
    x = [Fraction(0)] * 12
    for p, w in zip(pitches, weights):
        x[p % 12] += w
    mx = sum(x) / 12
    dx = [v - mx for v in x]
    vx = sum(d * d for d in dx)
    if vx == 0:
        return None, 0.0, []
    out = []
    for mode, prof in (("major", profiles[0]), ("minor", profiles[1])):
        pm = sum(prof) / 12
        dp = [v - pm for v in prof]
        vp = sum(d * d for d in dp)
        for j in range(12):
            cov = sum(dx[i] * dp[(i - j) % 12] for i in range(12))
            out.append((float(cov) / math.sqrt(float(vx * vp)), j, mode))
    out.sort(key=lambda t: -t[0])
    gap = out[0][0] - out[1][0]
    return (out[0][1], out[0][2]), gap, out


# --------------------------------------------------------------------------------------------
# input arrays.  A row is [onset_value, duration_value, pitch] over small integers; a layout says
# which columns the structured array has and how the values are scaled.

LAYOUTS = ["beat", "sec", "div", "quarter", "tick", "sec-odd", "score-full", "perf-full"]


def _scaled(layout, o, d):
    if layout in ("beat", "quarter"):
        return float(o), float(d)
    if layout == "sec":
        return 0.5 * o, 0.5 * d
    if layout == "sec-odd":
        return 0.1 + 0.3 * o, 0.3 * d
    if layout == "div":
        return 4 * o, 4 * d
    if layout == "tick":
        return 240 * o, 240 * d
    raise ValueError(layout)


def build_array(rows, layout, dur_scale=1):
    """Structured note array for rows; returns (array, onset_column, duration_column) where the
    columns are the ones partitura documents as preferred (score units before performance
    units, beat before quarter before div, sec before tick).  dur_scale multiplies all durations
    (exactly representable factors only)."""
    n = len(rows)
    if layout in ("beat", "quarter", "sec", "sec-odd"):
        u = {"beat": "beat", "quarter": "quarter", "sec": "sec", "sec-odd": "sec"}[layout]
        arr = np.zeros(n, dtype=[("onset_" + u, "f4"), ("duration_" + u, "f4"), ("pitch", "i4")])
        for i, (o, d, p) in enumerate(rows):
            so, sd = _scaled(layout, o, d)
            arr[i] = (so, float(np.float32(sd)) * dur_scale, p)
        return arr, "onset_" + u, "duration_" + u
    if layout in ("div", "tick"):
        arr = np.zeros(n, dtype=[("onset_" + layout, "i4"), ("duration_" + layout, "i4"), ("pitch", "i4")])
        for i, (o, d, p) in enumerate(rows):
            so, sd = _scaled(layout, o, d)
            arr[i] = (so, int(sd * dur_scale), p)
        return arr, "onset_" + layout, "duration_" + layout
    if layout == "score-full":
        # the columns of Part.note_array(): quarter beats, 4 divs per quarter
        arr = np.zeros(n, dtype=[("onset_beat", "f4"), ("duration_beat", "f4"), ("onset_quarter", "f4"),
                                 ("duration_quarter", "f4"), ("onset_div", "i4"), ("duration_div", "i4"),
                                 ("pitch", "i4"), ("voice", "i4"), ("id", "U256")])
        for i, (o, d, p) in enumerate(rows):
            arr[i] = (o, d * dur_scale, o, d * dur_scale, 4 * o, int(4 * d * dur_scale), p, 1, "n%d" % i)
        return arr, "onset_beat", "duration_beat"
    if layout == "perf-full":
        # the columns of PerformedPart.note_array()
        arr = np.zeros(n, dtype=[("onset_sec", "f4"), ("duration_sec", "f4"), ("onset_tick", "i4"),
                                 ("duration_tick", "i4"), ("pitch", "i4"), ("velocity", "i4"),
                                 ("track", "i4"), ("channel", "i4"), ("id", "U256")])
        for i, (o, d, p) in enumerate(rows):
            arr[i] = (0.5 * o, 0.5 * d * dur_scale, 240 * o, int(240 * d * dur_scale), p, 64, 0, 0, "n%d" % i)
        return arr, "onset_sec", "duration_sec"
    raise ValueError(layout)


def distinct_permutations(k, rows, mode):
    """Index permutations of range(k).  mode 'all': every permutation giving a distinct row
    sequence; mode 'some': identity, reversal, rotation, stride shuffle, pitch-descending (distinct ones);
    mode 'two': identity and stride shuffle."""
    seen = set()
    out = []
    if mode == "all":
        cand = itertools.permutations(range(k))
    else:
        ident = list(range(k))
        cand = [ident, ident[::-1], ident[k // 2:] + ident[:k // 2]]
        # stride shuffle: i -> (i * s) mod k for the smallest s >= 7 coprime to k
        s = 7
        while math.gcd(s, k) != 1:
            s += 1
        cand.append([(i * s + 3) % k for i in range(k)])
        if mode == "two":
            cand = [cand[0], cand[-1]]
            for perm in cand:
                key = tuple(tuple(rows[i]) for i in perm)
                if key not in seen:
                    seen.add(key)
                    out.append(list(perm))
            return out
        # sort by pitch descending then onset descending (adversarial for stable-sort logic)
        cand.append(sorted(ident, key=lambda i: (-rows[i][2], -rows[i][0], i)))
    for perm in cand:
        key = tuple(tuple(rows[i]) for i in perm)
        if key in seen:
            continue
        seen.add(key)
        out.append(list(perm))
    return out


def multisets(cells, k):
    """All multisets of size k over cells, as sorted lists of rows (deterministic order)."""
    for combo in itertools.combinations_with_replacement(cells, k):
        yield [list(c) for c in combo]


# --------------------------------------------------------------------------------------------
# MIDI files

def write_midi(path, tracks, ppq):
    """tracks: list of lists of [channel, onset, duration, pitch] in quarter units.  Writes one MIDI
    track per list.  At one tick the order is: note_offs of sounding notes, then zero-length notes
    (on immediately followed by off), then note_ons."""
    import mido

    mf = mido.MidiFile(ticks_per_beat=ppq, type=1 if len(tracks) > 1 else 0)
    for notes in tracks:
        ev = []
        for i, (ch, o, d, p) in enumerate(notes):
            if d > 0:
                ev.append((o * ppq, 2, i, 0, "on", ch, p))
                ev.append(((o + d) * ppq, 0, i, 0, "off", ch, p))
            else:
                ev.append((o * ppq, 1, i, 0, "on", ch, p))
                ev.append((o * ppq, 1, i, 1, "off", ch, p))
        ev.sort(key=lambda e: e[:4])
        tr = mido.MidiTrack()
        t = 0
        for e in ev:
            tick, kind, ch, p = e[0], e[4], e[5], e[6]
            if kind == "on":
                tr.append(mido.Message("note_on", note=p, velocity=64, channel=ch, time=tick - t))
            else:
                tr.append(mido.Message("note_off", note=p, velocity=0, channel=ch, time=tick - t))
            t = tick
        tr.append(mido.MetaMessage("end_of_track", time=0))
        mf.tracks.append(tr)
    mf.save(path)


def midi_precondition(tracks):
    """No two notes of equal pitch in one (track, channel) touch or overlap (closed intervals):
    otherwise the note-on/note-off pairing of the file format is ambiguous (owned by C04)."""
    for notes in tracks:
        by = {}
        for ch, o, d, p in notes:
            by.setdefault((ch, p), []).append((o, o + d))
        for iv in by.values():
            iv.sort()
            for a, b in zip(iv, iv[1:]):
                if b[0] <= a[1]:
                    return False
    return True


# --------------------------------------------------------------------------------------------
# voices stored by the MIDI importer: partitions of the file's notes

NO_VOICE_MODES = (1, 3, 4, 5)  # assign modes documented as "no voices" / "without voices"


def file_note_order(tracks, ppq):
    """The notes of a file written by write_midi as (onset tick, pitch, duration tick, track,
    channel), in file order: by track, then channel, then by the position of the event that ends
    the note (write_midi: note_offs by note index, then zero-length notes, at one tick)."""
    out = []
    for ti, notes in enumerate(tracks):
        keyed = []
        for i, (ch, o, d, p) in enumerate(notes):
            keyed.append(((ch, (o + d) * ppq, 0 if d > 0 else 1, i), (o * ppq, p, d * ppq, ti, ch)))
        keyed.sort(key=lambda t: t[0])
        out.extend(v for _, v in keyed)
    return out


def part_group_of(mode, track, channel):
    """Which notes share a part under a no-voice assign mode (from the documented semantics)."""
    if mode == 4:
        return 0
    if mode == 3:
        return track
    if mode in (1, 5):
        return (track, channel)
    raise ValueError(mode)


def canon_partition(keys, labels):
    """Partition of notes (given by hashable, sortable keys; equal keys are interchangeable) into
    the blocks of equal label, as a sorted tuple of sorted tuples - independent of label values."""
    blocks = {}
    for k, lab in zip(keys, labels):
        blocks.setdefault(lab, []).append(k)
    return tuple(sorted(tuple(sorted(b)) for b in blocks.values()))
