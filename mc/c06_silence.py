"""Reference model for the silence-removal sub-spaces of C06 (load_performance(..., first_note_at_zero=True)).

Plain Python, exact `Fraction` arithmetic, does not import partitura.

The statement fixes what a loaded performance contains (notes, control changes, program changes with
their times); loading "with the first note at zero" is that content on a time axis whose origin is the
onset of the first note.  What it leaves open is how control / program changes that lie *before* the
new origin are represented afterwards (kept at time 0, merged into one event, ...).  Therefore

* notes are compared exactly (times minus the first onset);
* control and program changes are compared through their **state function**: per group
  (track, channel, controller number) resp. (track, channel), the value in effect at every time >= 0.
  For the reference this is the step function of the original events on the shifted axis; before the
  first original event of a group the value is unknown, so nothing is claimed there (an implementation
  may or may not write an initial event).  A group that has original events must still be defined from
  max(0, first event - origin) on, and a group without original events must not appear.
"""
from fractions import Fraction as F

TOL = F(1, 10**9)


def _tol(t):
    return TOL * max(1, abs(t))


def expected_steps(events, origin):
    """events: [(time Fraction, value)] of one group on the original axis (distinct times).
    Returns the canonical step list [(t, v), ...] on the shifted axis, starting at t0 = max(0, first - origin):
    times strictly increasing, consecutive values different."""
    evs = sorted(events, key=lambda e: e[0])
    steps = []
    for t, v in evs:
        ts = max(F(0), F(t) - origin)
        if steps and steps[-1][0] == ts:
            steps[-1] = (ts, v)  # several events at or before the origin: the latest is in effect
        else:
            steps.append((ts, v))
    canon = []
    for ts, v in steps:
        if canon and canon[-1][1] == v:
            continue
        canon.append((ts, v))
    return canon


def value_at(steps, t):
    """value of the canonical step list at time t (None before its start)"""
    cur = None
    for ts, v in steps:
        if ts <= t + _tol(t):
            cur = v
        else:
            break
    return cur


def observed_values_at(obs, t):
    """obs: [(time Fraction, value)] in list order.  Set of values carried by the events of the latest
    observed time point <= t (order inside one time point is not claimed); empty = undefined."""
    best = None
    for to, _ in obs:
        if to <= t + _tol(t) and (best is None or to > best):
            best = to
    if best is None:
        return set()
    return set(v for to, v in obs if abs(to - best) <= _tol(best))


def compare_state(exp_events, obs_events, origin):
    """Returns None when the observed events realise the expected state function, else a short reason.

    exp_events: [(time Fraction (original axis), value)], obs_events: [(time float/Fraction (shifted axis), value)]."""
    steps = expected_steps(exp_events, origin)
    try:
        obs = [(F(t), v) for t, v in obs_events]
    except (TypeError, ValueError, OverflowError):
        return "non-numeric time"
    if any(t < -TOL for t, _ in obs):
        return "negative time"
    t0 = steps[0][0]
    points = sorted(set([ts for ts, _ in steps] + [to for to, _ in obs if to > t0]))
    # cluster points closer than the tolerance
    reps = []
    for p in points:
        if reps and p - reps[-1] <= 2 * _tol(p):
            continue
        reps.append(p)
    samples = []
    for a, b in zip(reps, reps[1:]):
        samples.append(a)
        samples.append((a + b) / 2)
    samples.append(reps[-1])
    samples.append(reps[-1] + 1)
    for t in samples:
        e = value_at(steps, t)
        o = observed_values_at(obs, t)
        if not o:
            return "no value in effect at t=%r (expected %r)" % (float(t), e)
        if e not in o:
            return "value in effect at t=%r is %r, expected %r" % (float(t), sorted(o, key=repr), e)
    return None
