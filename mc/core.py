"""Common runner for the bounded-exhaustive checks (see DESIGN.md section 2).

A check module defines
  PID                      property id ("C01")
  spaces(tier, seed)       -> list of Space(name, cases, exhaustive, bounds)
  eval_case(case)          -> CaseResult  (runs the real implementation in lock-step with the
                              reference model and returns violations of the property)
  TRIGGERS                 optional {name: predicate(case, violation)} for known findings
and calls run_check(module).

Every case is a plain JSON-able value (lists, dicts, ints, strings, Fractions as "a/b" strings).
"""
import argparse
import hashlib
import json
import multiprocessing as mp
import os
import signal
import sys
import time
import traceback
from collections import Counter
from fractions import Fraction

VERIF = os.path.dirname(os.path.dirname(os.path.abspath(__file__)))
REPO = os.environ.get("VERIF_REPO", "/repo")
def _default_nproc():
    # results do not depend on the number of workers (ordered imap); on a busy machine use fewer
    try:
        load = os.getloadavg()[0]
    except OSError:
        load = 0.0
    return 16 if load < 24 else 6


NPROC = int(os.environ.get("VERIF_NPROC", "0")) or _default_nproc()
CASE_TIMEOUT = float(os.environ.get("VERIF_CASE_TIMEOUT", "20"))


def ensure_repo_on_path():
    """Make `import partitura` resolve to the working tree under test."""
    root = os.path.abspath(REPO)
    if sys.path[0] != root:
        sys.path.insert(0, root)
    import warnings

    warnings.filterwarnings("ignore")
    import partitura  # noqa

    pf = os.path.abspath(partitura.__file__)
    if not pf.startswith(root + os.sep):
        print("HARNESS-ERROR: partitura imported from %s, expected under %s" % (pf, root))
        sys.exit(2)
    return partitura


class Hang(Exception):
    pass


def _alarm(signum, frame):
    raise Hang("case exceeded %.0fs" % CASE_TIMEOUT)


# The per-case watchdog counts CPU time of the worker (ITIMER_PROF), so that the verdict "does not terminate"
# does not depend on how loaded the machine is; a much longer wall-clock timer catches a case that blocks
# without using the CPU.  Both timers re-fire every few seconds in case the library swallows the exception.
WALL_FACTOR = 15


def _arm():
    signal.setitimer(signal.ITIMER_PROF, CASE_TIMEOUT, 2.0)
    signal.setitimer(signal.ITIMER_REAL, CASE_TIMEOUT * WALL_FACTOR, 5.0)


def _disarm():
    signal.setitimer(signal.ITIMER_PROF, 0)
    signal.setitimer(signal.ITIMER_REAL, 0)


class Space(object):
    def __init__(self, name, cases, exhaustive=True, bounds=""):
        self.name = name
        self.cases = cases  # iterable
        self.exhaustive = exhaustive
        self.bounds = bounds


class CaseResult(object):
    """Outcome of evaluating the property on one case.

    states       number of distinct implementation states on which invariants were evaluated
    transitions  number of operations executed on the real implementation
    traces       number of reference-model traces compared step by step with the implementation
    outcome      short string summarising what was observed (for the distinct-outcomes count)
    nontrivial   bool: the case exercised the mechanism (rule stated by the check)
    violations   list of dicts(clause, kind, where, expected, observed, detail)
    """

    __slots__ = ("states", "transitions", "traces", "outcome", "nontrivial", "violations", "extra", "payload")

    def __init__(self, states=1, transitions=1, traces=1, outcome="", nontrivial=True):
        self.states = states
        self.transitions = transitions
        self.traces = traces
        self.outcome = outcome
        self.nontrivial = nontrivial
        self.violations = []
        self.extra = None
        self.payload = None

    def fail(self, clause, expected=None, observed=None, kind="mismatch", where="", detail=""):
        if len(self.violations) >= 8:
            return
        self.violations.append(
            dict(
                clause=clause,
                kind=kind,
                where=where,
                expected=jsonable(expected),
                observed=jsonable(observed),
                detail=detail,
            )
        )


def jsonable(x):
    import numpy as np

    if isinstance(x, (str, int, bool)) or x is None:
        return x
    if isinstance(x, float):
        return x if x == x and abs(x) != float("inf") else repr(x)
    if isinstance(x, Fraction):
        return "%d/%d" % (x.numerator, x.denominator) if x.denominator != 1 else int(x)
    if isinstance(x, (np.integer,)):
        return int(x)
    if isinstance(x, (np.floating,)):
        return jsonable(float(x))
    if isinstance(x, np.ndarray):
        return jsonable(x.tolist())
    if isinstance(x, dict):
        return {str(k): jsonable(v) for k, v in x.items()}
    if isinstance(x, (list, tuple, set, frozenset)):
        return [jsonable(v) for v in x]
    if isinstance(x, bytes):
        return x.decode("utf8", "replace")
    return repr(x)


def innermost_partitura_frame(exc):
    tb = traceback.extract_tb(exc.__traceback__)
    where = ""
    for fr in tb:
        if "/partitura/" in fr.filename:
            where = "%s:%s" % (fr.filename.split("/partitura/", 1)[1], fr.name)
    return where


def exc_text(exc):
    return "%s: %s" % (type(exc).__name__, str(exc)[:300])


def guarded(res, clause, fn, *a, **kw):
    """Call fn; an exception or a hang becomes a violation of `clause`. Returns (ok, value)."""
    try:
        return True, fn(*a, **kw)
    except Hang as e:
        res.fail(clause, kind="hang", where="", observed=str(e))
        return False, None
    except Exception as e:  # noqa
        res.fail(clause, kind="exception", where=innermost_partitura_frame(e), observed=exc_text(e))
        return False, None


def case_digest(case):
    return hashlib.sha1(json.dumps(jsonable(case), sort_keys=True).encode()).hexdigest()


def block_of(case, nblocks):
    return int(case_digest(case)[:8], 16) % nblocks


# ---------------------------------------------------------------------------------------------
# worker side

_EVAL = None


def _init_worker(modname):
    global _EVAL
    import importlib

    os.environ.setdefault("PYTHONHASHSEED", "0")
    mod = importlib.import_module(modname)
    _EVAL = mod.eval_case
    signal.signal(signal.SIGALRM, _alarm)
    signal.signal(signal.SIGPROF, _alarm)
    if hasattr(mod, "init_worker"):
        mod.init_worker()


def _eval_one(case):
    _arm()
    try:
        try:
            r = _EVAL(case)
        finally:
            _disarm()
    except Hang as e:
        r = CaseResult(outcome="hang")
        r.fail("terminates", kind="hang", observed=str(e))
    except Exception as e:  # harness error inside eval_case itself
        r = CaseResult(outcome="harness-error")
        r.fail(
            "harness",
            kind="harness-error",
            where=innermost_partitura_frame(e),
            observed=exc_text(e),
            detail=traceback.format_exc()[-1500:],
        )
    return r


def _eval_chunk(chunk):
    out = []
    for idx, case in chunk:
        r = _eval_one(case)
        out.append((idx, r.states, r.transitions, r.traces, r.outcome, r.nontrivial, r.violations, r.extra,
                    case if r.violations else None, r.payload))
    return out


def _chunks(it, n):
    buf = []
    for i, c in enumerate(it):
        buf.append((i, c))
        if len(buf) >= n:
            yield buf
            buf = []
    if buf:
        yield buf


# ---------------------------------------------------------------------------------------------


class Runner(object):
    def __init__(self, mod, tier, seed):
        self.mod = mod
        self.pid = mod.PID
        self.tier = tier
        self.seed = seed
        self.t0 = time.time()
        self.states = 0
        self.transitions = 0
        self.traces = 0
        self.evaluations = 0
        self.nontrivial = 0
        self.outcomes = Counter()
        self.spaces = []
        self.samples = []
        self.violations = []  # (space, idx, case, violation)
        self.caps = []
        self.extra = {}
        self.pool = None
        self.dropped_violations = 0

    def get_pool(self):
        if self.pool is None:
            ctx = mp.get_context("fork")
            self.pool = ctx.Pool(NPROC, initializer=_init_worker, initargs=(self.mod.__name__,))
        return self.pool

    def run_space(self, space, chunk=None, on_result=None):
        t0 = time.time()
        n = 0
        nviol = 0
        s_states = s_trans = 0
        serial = NPROC <= 1 or getattr(self.mod, "SERIAL", False)
        chunk = chunk or getattr(self.mod, "CHUNK", 50)
        store = {}

        def gen():
            it = space.cases() if callable(space.cases) else iter(space.cases)
            for ch in _chunks(it, chunk):
                for idx, c in ch:
                    if idx < 2:
                        store[idx] = c
                    store["last"] = c
                yield ch

        if serial:
            _init_worker(self.mod.__name__)
            it = (_eval_chunk(ch) for ch in gen())
        else:
            it = self.get_pool().imap(_eval_chunk, gen(), chunksize=1)
        for out in it:
            for idx, st, tr, trc, outcome, nontriv, viols, extra, vcase, payload in out:
                n += 1
                if on_result is not None:
                    on_result(idx, payload)
                self.states += st
                self.transitions += tr
                self.traces += trc
                s_states += st
                s_trans += tr
                if nontriv:
                    self.nontrivial += 1
                self.outcomes[outcome] += 1
                if extra:
                    for k, v in extra.items():
                        self.extra[k] = self.extra.get(k, 0) + v
                if viols:
                    nviol += len(viols)
                    for v in viols:
                        if len(self.violations) < 100000:
                            self.violations.append((space.name, idx, vcase, v))
                        else:
                            self.dropped_violations += 1
        self.evaluations += n
        samples = [store[k] for k in (0, 1, "last") if k in store]
        for s in samples:
            self.samples.append({"space": space.name, "case": jsonable(s)})
        self.spaces.append(
            dict(
                name=space.name,
                cases=n,
                states=s_states,
                transitions=s_trans,
                exhaustive=bool(space.exhaustive),
                bounds=space.bounds,
                violations=nviol,
                wall_s=round(time.time() - t0, 2),
            )
        )
        print(
            "[%s] space %-28s cases=%d states=%d transitions=%d violations=%d %.1fs"
            % (self.pid, space.name, n, s_states, s_trans, nviol, time.time() - t0),
            flush=True,
        )

    def close(self):
        if self.pool is not None:
            self.pool.close()
            self.pool.join()
            self.pool = None


def load_known_findings(pid):
    path = os.path.join(VERIF, "known_findings.json")
    if not os.path.exists(path):
        return []
    with open(path) as f:
        data = json.load(f)
    return [e for e in data.get("findings", []) if e.get("property") == pid and e.get("status") == "open"]


def match_finding(entry, case, v, triggers):
    if entry.get("clause") and entry["clause"] != v["clause"]:
        return False
    if entry.get("kind") and entry["kind"] != v["kind"]:
        return False
    if entry.get("where") and entry["where"] != v.get("where", ""):
        return False
    trig = entry.get("trigger")
    if trig:
        pred = triggers.get(trig)
        if pred is None:
            return False
        try:
            return bool(pred(case, v))
        except Exception:
            return False
    return True


def write_replay(pid, space, case, v):
    d = os.path.join(VERIF, "replay")
    os.makedirs(d, exist_ok=True)
    dig = case_digest([case, v["clause"]])[:12]
    path = os.path.join(d, "%s-%s.json" % (pid, dig))
    with open(path, "w") as f:
        json.dump(
            dict(property=pid, space=space, case=jsonable(case), violation=v,
                 how="cd /verif && ./check %s --replay %s" % (pid, path)),
            f,
            indent=1,
        )
    return path


def write_evidence(pid, tier, seed, cov, assumptions, wall, nviol):
    ev = dict(
        property_id=pid,
        tier=tier,
        seed=seed,
        level="model_checking",
        coverage=cov,
        assumptions=assumptions,
        wall_s=round(wall, 2),
        violations=nviol,
    )
    d = os.path.join(VERIF, "evidence")
    os.makedirs(d, exist_ok=True)
    path = os.path.join(d, "%s.json" % pid)
    try:
        import jsonschema

        with open("/root/.vp/EVIDENCE.schema.json") as f:
            schema = json.load(f)
        jsonschema.validate(ev, schema)
    except ImportError:
        pass
    except FileNotFoundError:
        pass
    tmp = path + ".tmp"
    with open(tmp, "w") as f:
        json.dump(ev, f, indent=1)
    os.replace(tmp, path)
    return path


def run_check(mod, argv=None):
    ap = argparse.ArgumentParser()
    ap.add_argument("--tier", default=os.environ.get("VERIF_TIER", "quick"), choices=["quick", "thorough"])
    ap.add_argument("--replay", default=None)
    ap.add_argument("--only", default=None, help="run only the named space(s), comma separated (debug)")
    ap.add_argument("--no-evidence", action="store_true")
    args = ap.parse_args(argv)
    try:
        seed = int(os.environ.get("VERIF_SEED", "0"))
    except ValueError:
        seed = 0
    pid = mod.PID
    triggers = getattr(mod, "TRIGGERS", {})

    if args.replay:
        ensure_repo_on_path()
        with open(args.replay) as f:
            rp = json.load(f)
        _init_worker(mod.__name__)
        case = rp["case"]
        if hasattr(mod, "decode_case"):
            case = mod.decode_case(case)
        r = _eval_one(case)
        r2 = _eval_one(case)
        if [v["clause"] for v in r.violations] != [v["clause"] for v in r2.violations]:
            print("HARNESS-ERROR: replay not deterministic")
            sys.exit(2)
        bad = 0
        for v in r.violations:
            print("violation clause=%s kind=%s where=%s\n  expected=%s\n  observed=%s\n  %s" % (
                v["clause"], v["kind"], v["where"], json.dumps(v["expected"])[:600],
                json.dumps(v["observed"])[:600], v.get("detail", "")[:600]))
            known = [e for e in load_known_findings(pid) if match_finding(e, case, v, triggers)]
            if known:
                print("KNOWN-FINDING: property=%s %s" % (pid, known[0]["what"]))
            else:
                bad += 1
        if bad:
            print("VIOLATION property=%s replay=%s" % (pid, args.replay))
            sys.exit(1)
        print("replay: property holds on this case")
        sys.exit(0)

    ensure_repo_on_path()
    run = Runner(mod, args.tier, seed)
    t0 = time.time()
    spaces = mod.spaces(args.tier, seed)
    if args.only:
        names = set(args.only.split(","))
        spaces = [s for s in spaces if s.name in names]
    try:
        for sp in spaces:
            run.run_space(sp)
        if hasattr(mod, "explore") and not args.only:
            mod.explore(run, args.tier, seed)
    finally:
        run.close()
    if hasattr(mod, "finalize"):
        mod.finalize(run)

    # classify violations
    findings = load_known_findings(pid)
    unknown = []
    matched = Counter()
    harness = []
    for space, idx, case, v in run.violations:
        if v["kind"] == "harness-error":
            harness.append((space, idx, case, v))
            continue
        hit = None
        for e in findings:
            if match_finding(e, case, v, triggers):
                hit = e
                break
        if hit is not None:
            matched[hit["what"]] += 1
        else:
            unknown.append((space, idx, case, v))

    # group unknown violations: one replay file per (clause, kind, where); smallest case first
    groups = {}
    for space, idx, case, v in unknown:
        key = (v["clause"], v["kind"], v.get("where", ""))
        cur = groups.get(key)
        size = len(json.dumps(jsonable(case)))
        if cur is None or (size, idx) < cur[0]:
            groups[key] = ((size, idx), space, case, v)
    group_counts = Counter((v["clause"], v["kind"], v.get("where", "")) for _, _, _, v in unknown)

    cov = dict(
        states=run.states,
        transitions=run.transitions,
        traces_validated_against_impl=run.traces,
        samples=run.samples[:12] or [{"note": "no case explored"}],
        evaluations=run.evaluations,
        distinct_nontrivial=run.nontrivial,
        rule=getattr(mod, "RULE", "cases are enumerated exhaustively per named sub-space; every case is distinct by construction"),
        exhaustive=all(s["exhaustive"] for s in run.spaces) if run.spaces else False,
        spaces=run.spaces,
        distinct_outcomes=len(run.outcomes),
        outcome_histogram=dict(run.outcomes.most_common(12)),
        caps=run.caps,
        known_findings_matched=dict(matched),
        violation_groups=[
            dict(clause=k[0], kind=k[1], where=k[2], count=c) for k, c in sorted(group_counts.items())
        ],
    )
    cov.update(run.extra)
    nviol = len(unknown) + len(harness) + run.dropped_violations
    if not args.no_evidence:
        write_evidence(pid, args.tier, seed, cov, getattr(mod, "ASSUMPTIONS", []), time.time() - t0, nviol)

    for what, c in sorted(matched.items()):
        print("KNOWN-FINDING: property=%s %s (%d cases)" % (pid, what, c))
    if harness:
        space, idx, case, v = harness[0]
        print("HARNESS-ERROR: %s %s\n%s" % (v["where"], v["observed"], v.get("detail", "")))
        print("case:", json.dumps(jsonable(case))[:1000])
        sys.exit(2)
    if run.dropped_violations and not groups:
        # more violations than the runner stores: the ones beyond the cap were not classified
        print("violation overflow: %d violations beyond the stored %d were not classified against known findings"
              % (run.dropped_violations, len(run.violations)))
        print("VIOLATION property=%s replay=%s" % (pid, "(none: overflow, rerun with --only <space>)"))
        sys.exit(1)
    if groups:
        for key in sorted(groups):
            _, space, case, v = groups[key]
            path = write_replay(pid, space, case, v)
            print(
                "violation group clause=%s kind=%s where=%s count=%d\n  case=%s\n  expected=%s\n  observed=%s %s"
                % (key[0], key[1], key[2], group_counts[key], json.dumps(jsonable(case))[:700],
                   json.dumps(v["expected"])[:400], json.dumps(v["observed"])[:400], v.get("detail", "")[:300])
            )
            print("VIOLATION property=%s replay=%s" % (pid, path))
        sys.exit(1)
    print(
        "[%s] OK tier=%s seed=%d states=%d transitions=%d traces=%d outcomes=%d wall=%.1fs"
        % (pid, args.tier, seed, run.states, run.transitions, run.traces, len(run.outcomes), time.time() - t0)
    )
    sys.exit(0)
