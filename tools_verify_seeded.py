#!/venv/bin/python
"""Confirm seeded changes myself: for each /verif/seeded/<id>/ (default: those whose meta.json has no
`verified` baseline + demo record) make a scratch worktree of /repo HEAD under /var/tmp, run demo.py
without the change, apply patch.diff, run the baseline suite (compare with BASELINE.json stable_pass)
and demo.py with the change; record the outcome in meta.json["verified"].  Several ids in parallel
(-j N, default 5).  The checks themselves are run by tools_seeded.py.
Usage: tools_verify_seeded.py [-j N] [--all] [ids...]
"""
import json
import os
import shutil
import subprocess
import sys
from concurrent.futures import ThreadPoolExecutor

HERE = os.path.dirname(os.path.abspath(__file__))
SD = os.path.join(HERE, "seeded")


def sh(cmd, cwd=None, timeout=3600):
    p = subprocess.run(cmd, shell=True, cwd=cwd, stdout=subprocess.PIPE, stderr=subprocess.STDOUT, timeout=timeout)
    return p.returncode, p.stdout.decode("utf8", "replace")


def one(sid):
    d = os.path.join(SD, sid)
    wt = "/var/tmp/seedverify-%s" % sid
    sh("git -C /repo worktree remove --force %s" % wt)
    shutil.rmtree(wt, ignore_errors=True)
    rc, out = sh("git -C /repo worktree add --detach -q %s HEAD" % wt)
    if rc:
        return sid, dict(error="worktree failed: " + out[-200:])
    v = {}
    try:
        os.makedirs(os.path.join(wt, "MUTATION"), exist_ok=True)
        shutil.copy(os.path.join(d, "demo.py"), os.path.join(wt, "MUTATION", "demo.py"))
        rc, out = sh("/venv/bin/python MUTATION/demo.py", cwd=wt)
        v["demo_without_change"] = "exit %d" % rc
        rc, out = sh("git apply %s" % os.path.join(d, "patch.diff"), cwd=wt)
        if rc:
            v["apply"] = "FAILED: " + out[-300:]
            return sid, v
        xml = "/var/tmp/seedverify-%s.xml" % sid
        sh("nice -n 5 /venv/bin/python -m pytest -q -p no:cacheprovider --timeout=900 --continue-on-collection-errors --junitxml=%s" % xml, cwd=wt)
        rc, out = sh("%s/tools_baseline.py %s" % (HERE, xml))
        v["baseline"] = out.strip().splitlines()[0] if out.strip() else "?"
        if os.path.exists(xml):
            os.remove(xml)
        rc, out = sh("/venv/bin/python MUTATION/demo.py", cwd=wt)
        v["demo_with_change"] = "exit %d" % rc
        v["repo_head"] = sh("git -C /repo rev-parse --short HEAD")[1].strip()
    finally:
        sh("git -C /repo worktree remove --force %s" % wt)
        shutil.rmtree(wt, ignore_errors=True)
    return sid, v


def main():
    argv = sys.argv[1:]
    j = 5
    if "-j" in argv:
        i = argv.index("-j")
        j = int(argv[i + 1])
        del argv[i:i + 2]
    everything = "--all" in argv
    ids = [a for a in argv if not a.startswith("-")]
    if not ids:
        for d in sorted(os.listdir(SD)):
            mp = os.path.join(SD, d, "meta.json")
            if os.path.exists(mp) and os.path.exists(os.path.join(SD, d, "demo.py")):
                v = json.load(open(mp)).get("verified", {})
                if everything or not ("baseline" in v and "demo_with_change" in v and "demo_without_change" in v):
                    ids.append(d)
    print("verifying %d seeded changes, %d at a time" % (len(ids), j), flush=True)
    bad = 0
    with ThreadPoolExecutor(j) as ex:
        for sid, v in ex.map(one, ids):
            mp = os.path.join(SD, sid, "meta.json")
            meta = json.load(open(mp))
            prev = meta.get("verified", {})
            prev.update(v)
            prev["how"] = ("scratch worktree of /repo HEAD under /var/tmp, git apply patch.diff; baseline suite compared with BASELINE.json "
                           "stable_pass; demo.py run without and with the change; ./check <property> --tier quick with VERIF_REPO=<worktree> "
                           "(tools_seeded.py, seeded/RESULTS.json)")
            meta["verified"] = prev
            json.dump(meta, open(mp, "w"), indent=1)
            ok = v.get("demo_without_change") == "exit 0" and v.get("demo_with_change") == "exit 1" and "missing=0" in v.get("baseline", "")
            bad += not ok
            print("%-10s %s  without=%s with=%s  %s" % (sid, "ok " if ok else "BAD", v.get("demo_without_change"), v.get("demo_with_change"), v.get("baseline", v.get("apply", v.get("error")))), flush=True)
    print("done, %d not confirmed" % bad)


if __name__ == "__main__":
    main()
