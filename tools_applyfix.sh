#!/bin/bash
# tools_applyfix.sh <patch file> <commit message> : apply to /repo and commit (run the baseline afterwards!)
set -e
cd /repo
git apply "$1"
git commit -qam "$2"
echo "committed $(git log --oneline | head -1)"
